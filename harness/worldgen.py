"""Seeded, type-directed generators of worlds for the five commands."""
import os

from .model import W, put_argv
from .sandbox import MODEL_ROOT

R = MODEL_ROOT
NAMES = [b"f", b"a b", b"x.txt", b"-dash", b"new\nline", b"per%cent", b"caf\xc3\xa9", b"\xff\xfe", b"q?*[", b".hidden",
         b"foo", b"foo.trashinfo", b"tab\there", b"a=b", b"\xe2\x82\xac", b"UP", b"up", b"~", b"#h", b"+p", b"d1", b"d2", b"...", b"....", b"cafe\xcc\x81", b"x.trashinfo.trashinfo", b"@f", b"@nope"]
SAFE_NAMES = [b"f", b"foo", b"x.txt", b"UP", b"d1", b"d2", b"a b", b".hidden"]
DOT_T = b".Trash"


def uid_dir(uid):
    return b".Trash-%d" % uid


def volume_layout(rng, w, uid, profile="mixed", focus=None):
    """mount table + state of the shared/alt trash dirs of every volume; returns the volume list"""
    vols = [R]
    if rng.random() < 0.35:
        w.mount(R + b"/home")
        vols.append(R + b"/home")
    for v in (R + b"/vol1", R + b"/vol2"):
        if rng.random() < 0.6:
            w.mount(v)
            vols.append(v)
    if R + b"/vol1" in vols and rng.random() < 0.3:
        w.mount(R + b"/vol1/nest")
        vols.append(R + b"/vol1/nest")
    if focus == "odd-mount" or rng.random() < 0.12:
        # a volume whose mount point has ".Trash-$uid" (and "files", "info") among its components: an image mounted inside
        # somebody's trash directory.  What a path is called decides nothing; only where $topdir/.Trash and .Trash-$uid ARE
        odd = R + b"/media/" + uid_dir(uid) + b"/files/image"
        w.mount(odd)
        vols.append(odd)
    for v in vols:
        st = rng.choice(["absent", "absent", "sticky", "sticky", "nonsticky", "nonsticky", "link-sticky", "link-nonsticky", "file"])
        t = v + b"/" + DOT_T
        if st == "sticky":
            w.dir(t, rng.choice([0o1777, 0o1777, 0o1755, 0o5777, 0o1700]))
        elif st == "nonsticky":
            # no sticky bit, whatever else is set (setgid directories are common on shared volumes)
            w.dir(t, rng.choice([0o777, 0o777, 0o755, 0o2777, 0o2775, 0o4777, 0o6777]))
        elif st.startswith("link"):
            real = v + b"/real-trash"
            w.dir(real, 0o1777 if st == "link-sticky" else 0o777)
            w.link(t, rng.choice([b"real-trash", real]))
        elif st == "file":
            w.file(t, b"not a dir")
        if st in ("sticky", "nonsticky") and rng.random() < 0.4:
            w.dir(t + b"/%d" % uid, 0o700)
        elif st.startswith("link") and rng.random() < 0.4:
            w.dir(v + b"/real-trash/%d" % uid, 0o700)
        alt = rng.choice(["absent", "absent", "dir", "dir", "file", "link-other", "link-dangling"])
        a = v + b"/" + uid_dir(uid)
        if alt == "dir":
            w.dir(a, 0o700)
        elif alt == "file":
            w.file(a, b"x")
        elif alt == "link-dangling":
            w.link(a, rng.choice([b"missing-target", v + b"/gone/deeper"]))
        elif alt == "link-other" and len(vols) > 1:
            other = rng.choice([x for x in vols if x != v])
            w.dir(other + b"/alt-target", 0o700)
            w.link(a, other + b"/alt-target")
    return vols


def make_entry(rng, w, d, name, kind=None, mounts=()):
    """create one entry of a random kind in directory d; returns its kind"""
    # a link to the top of ANOTHER volume: not the one the link lives on, nor the one holding the home trash (trash
    # directories created there would count as changes of the link's target)
    mounts = [m for m in mounts if not (d == m or d.startswith(m + b"/")) and m != R + b"/home"]
    kind = kind or rng.choice(["file", "file", "empty", "tree", "tree", "link-file", "link-dir", "link-dangling",
                               "link-abs", "fifo"] + (["link-mount"] if mounts else []))
    if kind == "link-mount" and not mounts:
        kind = "link-dir"
    p = d + b"/" + name
    if kind == "file":
        w.file(p, rng.choice([b"data", b"hello\n", b"\x00\xff bin", b"x" * 300]), rng.choice([0o644, 0o600, 0o755, 0o444]))
    elif kind == "empty":
        w.file(p, b"")
    elif kind == "fifo":
        w.fifo(p, rng.choice([0o644, 0o600]))
    elif kind == "tree":
        w.dir(p, rng.choice([0o755, 0o700, 0o555, 0o2555]))
        w.file(p + b"/in1", b"one")
        if rng.random() < 0.6:
            w.file(p + b"/sub/in2", b"two", 0o600)
            w.link(p + b"/sub/lnk", rng.choice([b"../in1", b"/nonexistent", R + b"/home"]))
        if rng.random() < 0.3:
            w.dir(p + b"/emptydir")
    elif kind == "link-file":
        w.file(d + b"/tgt-" + name, b"target data")
        w.link(p, b"tgt-" + name)
    elif kind == "link-dir":
        w.file(d + b"/tgtd-" + name + b"/inside", b"keep me")
        w.link(p, b"tgtd-" + name)
    elif kind == "link-dangling":
        w.link(p, b"no-such-target")
    elif kind == "link-abs":
        w.file(R + b"/abs-target", b"abs")
        w.link(p, R + b"/abs-target")
    elif kind == "link-mount":
        # a symbolic link whose target is the top directory of another volume (directly, relatively or via a second link)
        mp = rng.choice(list(mounts))
        w.file(mp + b"/on-volume", b"v")
        how = rng.choice(["abs", "rel", "via"])
        if how == "abs":
            w.link(p, mp)
        elif how == "rel":
            w.link(p, relpath(mp, d))
        else:
            w.link(d + b"/hop-" + name, mp)
            w.link(p, b"hop-" + name)
    elif kind == "link-link":
        w.file(d + b"/final-" + name, b"final")
        w.link(d + b"/mid-" + name, b"final-" + name)
        w.link(p, b"mid-" + name)
    return kind


def populate_trash(rng, w, tdir, names, n):
    """pre-existing trash content: pairs, orphans both ways"""
    for _ in range(n):
        nm = rng.choice(names) + rng.choice([b"", b"", b"_1", b"_2"])
        what = rng.choice(["pair", "pair", "info-only", "payload-only", "payload-dangling-link"])
        if what in ("pair", "info-only"):
            w.file(tdir + b"/info/" + nm + b".trashinfo",
                   b"[Trash Info]\nPath=" + rng.choice([b"/SBX/old/", b"old/"]) + b"x\nDeletionDate=2020-01-01T00:00:00\n", 0o600)
        if what in ("pair", "payload-only"):
            w.file(tdir + b"/files/" + nm, b"old payload " + nm)
        if what == "payload-dangling-link":
            w.link(tdir + b"/files/" + nm, b"nowhere")


def relpath(path, start):
    return os.path.relpath(path, start)


def spell(rng, w, entry, cwd, kind):
    """one of many spellings of `entry` (absolute model path) as seen from cwd"""
    d, name = os.path.split(entry)
    rel = relpath(entry, cwd)
    choices = ["rel", "rel", "abs", "dot", "slash", "slashes", "dotdot", "abs-slash", "dslash-abs", "via-link-parent",
               "symlink-dotdot"]
    c = rng.choice(choices)
    if c == "symlink-dotdot":
        # d/lk -> R/other/sub ; "d/lk/../name" designates R/other/name for the kernel, d/name lexically
        w.dir(R + b"/other/sub")
        w.file(R + b"/other/" + name, b"the entry the kernel designates")
        lk = d + b"/lk-elsewhere"
        w.link(lk, R + b"/other/sub")
        return relpath(lk, cwd) + b"/../" + name, c
    if c == "rel":
        return rel, c
    if c == "abs":
        return entry, c
    if c == "dot":
        return b"./" + rel, c
    if c == "slash":
        return rel + b"/", c
    if c == "slashes":
        return rel + b"//", c
    if c == "abs-slash":
        return entry + b"/", c
    if c == "dslash-abs":
        return b"/" + entry, c
    if c == "dotdot":
        # through a real sibling directory and back
        sib = d + b"/sibling-dir"
        if sib not in w.nodes:
            w.dir(sib)
        return relpath(sib, cwd) + b"/../" + name, c
    if c == "via-link-parent":
        lp = R + b"/lnk-to-parent"
        w.link(lp, d)
        return lp + b"/" + name, c
    return rel, "rel"


HOME_NAMES = [b"u", b"u", b"u", b"jo(e", b"a[b", b"c+d", b"info", b"my info", b"{x}", b"$HOME"]


def gen_put_world(rng, profile="mixed", focus=None):
    """focus: None, or one of "odd-mount", "long-nonutf8", "unknown-owner" - a rare ingredient of the worlds made certain"""
    w = W()
    uid = rng.choice([0, 1000, 1000, 65534])
    randints = [rng.randint(0, 65535) for _ in range(16)]
    home = w.dir(R + b"/home/" + rng.choice(HOME_NAMES))
    vols = volume_layout(rng, w, uid, profile, focus)
    env = {"HOME": home}
    x = rng.random()
    if x < 0.15:
        env["XDG_DATA_HOME"] = home + b"/xdg"
        if rng.random() < 0.25:
            # a symbolic link that does not resolve on the way to the home trash: nothing can be created through it
            w.link(home + b"/xdg", rng.choice([b"nowhere", R + b"/gone/xdg"]))
    elif x < 0.22:
        env["XDG_DATA_HOME"] = b""
    elif x < 0.30 and len(vols) > 1:
        env["XDG_DATA_HOME"] = rng.choice(vols[1:]) + b"/xdg"
    elif x < 0.36:
        # set and not empty is all the spec asks: a relative value (taken from the current directory), blanks
        env["XDG_DATA_HOME"] = rng.choice([b"xdg-rel", b"./.xdg", b" ", home + b"/data ", b" " + home.lstrip(b"/")])
    if rng.random() < 0.05:
        del env["HOME"]
    opts = {}
    m = rng.random()
    if m < 0.15:
        opts["mode"] = "force"
    elif m < 0.30:
        opts["mode"] = "interactive"
    if rng.random() < 0.12:
        td = rng.choice([R + b"/data/custom-trash", rng.choice(vols) + b"/stuff/ct", rng.choice(vols) + b"/ct", b"rel-trash"])
        opts["trashDir"] = td
    if rng.random() < 0.2:
        opts["homeFallback"] = True
    if rng.random() < 0.5 and opts.get("homeFallback"):
        env["TRASH_ENABLE_HOME_FALLBACK"] = b"1"
    elif opts.get("homeFallback") and rng.random() < 0.6:
        # anything but "1" leaves the fallback off
        env["TRASH_ENABLE_HOME_FALLBACK"] = rng.choice([b"0", b"", b"false", b"no", b"off", b"2", b"true", b"yes", b"01", b"1 "])
    elif rng.random() < 0.05:
        env["TRASH_ENABLE_HOME_FALLBACK"] = rng.choice([b"1", b"0", b"yes"])
    # where the entries live
    dirs = [home, home + b"/work", R + b"/data"] + [v + b"/stuff" for v in vols[1:]] + [v for v in vols[1:]]
    names = list(NAMES)
    rng.shuffle(names)
    long_name = None
    if focus == "long-nonutf8" or (profile in ("collide", "mixed") and rng.random() < (0.3 if profile == "collide" else 0.06)):
        # a base name of 246-255 bytes: "<name>.trashinfo" does not fit, trash-put shortens the name
        long_name = rng.choice([b"L", b"n"]) * rng.choice([246, 250, 255])
        if focus == "long-nonutf8" or rng.random() < 0.35:
            long_name = rng.choice([b"\xff", b"\xc3", b"caf\xe9"]) + long_name[4:]       # ... and no valid UTF-8 either
        names[0] = long_name
    nargs = rng.choice([1, 1, 1, 2, 2, 3, 4]) if focus != "long-nonutf8" else rng.choice([2, 3])
    if profile == "single":
        nargs = 1
        if opts.get("mode") == "interactive":
            del opts["mode"]
    args, meta = [], []
    cwd = rng.choice([home, home, R, rng.choice(dirs)])
    if cwd not in w.nodes:
        w.dir(cwd)
    for i in range(nargs):
        r = rng.random() if profile != "single" else 0.5
        d = rng.choice(dirs)
        if d not in w.nodes:
            w.dir(d)
        name = names[i]
        if r < 0.08:
            args.append(rng.choice([b".", b"..", b"./", b"../", b"work/.", b"work/..", b"work/../", b"./."]))
            w.dir(home + b"/work")
            meta.append({"class": "dot"})
            continue
        if r < 0.16:
            args.append(rng.choice([b"missing", d + b"/missing", b"missing/", b"work/missing/x", b""]))
            meta.append({"class": "missing"})
            continue
        if r < 0.20 and len(vols) > 1:
            mp = rng.choice(vols[1:])
            w.file(mp + b"/on-volume", b"v")
            if rng.random() < 0.6:
                # a top directory nobody may write to: an argument that cannot be moved keeps its mode too
                w.nodes[mp]["mode"] = rng.choice([0o555, 0o500])      # (no setgid: its inheritance is not modelled)
            args.append(rng.choice([mp, mp + b"/", relpath(mp, cwd)]))
            meta.append({"class": "mountpoint"})
            continue
        if name == long_name:
            kind = make_entry(rng, w, d, name, rng.choice(["file", "empty", "tree", "link-dangling"]))
            s_, sp = spell(rng, w, d + b"/" + name, cwd, kind)
            if sp in ("symlink-dotdot", "via-link-parent", "dotdot"):
                s_, sp = d + b"/" + name, "abs"
            args.append(s_)
            meta.append({"class": "entry", "kind": kind, "spelling": sp, "entry": d + b"/" + name})
            continue
        kind = make_entry(rng, w, d, name, rng.choice(["link-file", "link-dir", "link-dangling", "link-abs", "link-link"] +
                                                      (["link-mount", "link-mount"] if len(vols) > 1 else []))
                          if profile == "links" and rng.random() < 0.8 else None, mounts=vols[1:])
        s, sp = spell(rng, w, d + b"/" + name, cwd, kind)
        if profile == "links" and rng.random() < 0.5:
            s = s.rstrip(b"/") + b"/" * rng.randint(0, 3)
        args.append(s)
        meta.append({"class": "entry", "kind": kind, "spelling": sp, "entry": d + b"/" + name})
    if ((profile == "links" and rng.random() < 0.12) or (profile == "mixed" and rng.random() < 0.05)) and len(vols) > 1:
        # an entry reached through a link to a directory on another volume, then that link itself with trailing slashes
        # (whatever one argument taught the run about a directory, the next one names the link, not where it leads)
        tv = rng.choice(vols[1:])
        tgt = tv + b"/stuff/tgt-dir"
        w.file(tgt + b"/inside", b"reached through the link")
        w.file(tgt + b"/keep", b"stays")
        lk = home + b"/work/lk-cross"
        if lk not in w.nodes:
            w.dir(home + b"/work")
            w.link(lk, tgt)
            rel = cwd == home and rng.random() < 0.5
            a1 = (b"work/lk-cross" if rel else lk) + b"/inside"
            a2 = (b"work/lk-cross" if rel else lk) + b"/" * rng.randint(1, 2)
            args = [a1, a2] + args[:2]
            meta = [{"class": "entry", "kind": "file", "spelling": "via-link-parent", "entry": tgt + b"/inside"},
                    {"class": "entry", "kind": "link-dir", "spelling": "abs", "entry": lk}] + meta[:2]
    if profile == "links" and rng.random() < 0.1 and home + b"/work/trash-shortcut" not in w.nodes:
        # a convenience link to a trash directory of this very run, or to something in it: the link is an entry like any
        # other, where it leads does not matter
        ht = (env.get("XDG_DATA_HOME") or home + b"/.local/share") + b"/Trash"
        if ht.startswith(R + b"/") and env.get("HOME"):
            tgt = rng.choice([ht, ht + b"/files/old-payload", ht + b"/files"])
            if tgt.endswith(b"old-payload") and ht not in w.nodes:
                w.dir(ht, 0o700)
                w.dir(ht + b"/files", 0o700)
                w.dir(ht + b"/info", 0o700)
                w.file(ht + b"/files/old-payload", b"trashed long ago")
                w.file(ht + b"/info/old-payload.trashinfo", b"[Trash Info]\nPath=/old\nDeletionDate=2020-01-01T00:00:00\n", 0o600)
            w.link(home + b"/work/trash-shortcut", tgt)
            sl = rng.choice([b"", b"", b"/"]) if (tgt in w.nodes and w.nodes[tgt]["k"] == "d") else b""
            args = [home + b"/work/trash-shortcut" + sl] + args[:1]
            meta = [{"class": "entry", "kind": "link-dir", "spelling": "abs", "entry": home + b"/work/trash-shortcut"}] + meta[:1]
    if profile == "links" and rng.random() < 0.1 and home + b"/work/bld" not in w.nodes and home + b"/work/latest" not in w.nodes:
        # a directory, then a link that lives OUTSIDE it and points INTO it (`trash-put build latest`): the second argument
        # is the link, wherever it leads and whatever became of that
        w.file(home + b"/work/bld/out.txt", b"build output")
        w.file(home + b"/work/bld/sub/more", b"more")
        w.link(home + b"/work/latest", rng.choice([b"bld/out.txt", home + b"/work/bld/sub", b"bld/never-existed"]))
        rel = cwd == home + b"/work"
        if cwd == home and rng.random() < 0.5:
            a1, a2 = b"work/bld", b"work/latest"
        else:
            a1, a2 = home + b"/work/bld", home + b"/work/latest"
        args = [a1 + rng.choice([b"", b"/"]), a2] + args[:1]
        meta = [{"class": "entry", "kind": "tree", "spelling": "abs", "entry": home + b"/work/bld"},
                {"class": "entry", "kind": "link-file", "spelling": "abs", "entry": home + b"/work/latest"}] + meta[:1]
    # arguments must designate unrelated entries: drop a mount-point argument when another entry lives below it
    keep = []
    for a, mt in zip(args, meta):
        if mt["class"] == "mountpoint":
            mp = os.path.normpath(a if a.startswith(b"/") else os.path.join(cwd, a))
            if any(o.get("entry", b"").startswith(mp + b"/") for o in meta) or cwd.startswith(mp):
                continue
        keep.append((a, mt))
    if not keep:
        keep = [(b"missing", {"class": "missing"})]
    args, meta = [k[0] for k in keep], [k[1] for k in keep]
    nargs = len(args)
    # pre-existing content in the candidate trash dirs (collisions included)
    for tdir in {home + b"/.local/share/Trash"} | {v + b"/" + uid_dir(uid) for v in vols}:
        if rng.random() < 0.3 and (tdir not in w.nodes or w.nodes[tdir]["k"] == "d"):
            parent = os.path.dirname(tdir)
            if parent in w.nodes and w.nodes[parent]["k"] != "d":
                continue
            w.dir(tdir, 0o700)
            w.dir(tdir + b"/files", 0o700)
            w.dir(tdir + b"/info", 0o700)
            populate_trash(rng, w, tdir, [n_ for n_ in names[:nargs] if n_ != long_name] or [b"f"], rng.randint(1, 4))
            if long_name is not None and long_name in names[:nargs] and rng.random() < 0.7:
                sfx = b"_1"
                w.file(tdir + b"/files/" + long_name[:len(long_name) - len(sfx + b".trashinfo")] + sfx, b"orphan at the shortened name")
    if profile == "collide":
        for tdir in {home + b"/.local/share/Trash"} | {v + b"/" + uid_dir(uid) for v in vols}:
            parent = os.path.dirname(tdir)
            if (tdir in w.nodes and w.nodes[tdir]["k"] != "d") or (parent in w.nodes and w.nodes[parent]["k"] != "d"):
                continue
            w.dir(tdir, 0o700)
            w.dir(tdir + b"/files", 0o700)
            w.dir(tdir + b"/info", 0o700)
            many = rng.choice([0, 1, 3, 3, 101, 120]) if rng.random() < 0.6 else 0
            first_plain = True
            for m_ in meta:
                if "entry" not in m_:
                    continue
                nm = os.path.basename(m_["entry"])
                if nm == long_name:
                    # payloads without .trashinfo at the names the shortened entry would take (files/<shortened>_k)
                    for k in range(1, rng.choice([1, 2, 4])):
                        sfx = b"_%d" % k
                        short = nm[:len(nm) - len(sfx + b".trashinfo")] + sfx
                        what = rng.choice(["payload-only", "payload-dir", "payload-dangling-link", "pair"])
                        if what == "pair":
                            w.file(tdir + b"/info/" + short + b".trashinfo", b"[Trash Info]\nPath=/old\nDeletionDate=2020-01-01T00:00:00\n", 0o600)
                        if what in ("payload-only", "pair"):
                            w.file(tdir + b"/files/" + short, b"old long " + sfx)
                        elif what == "payload-dir":
                            w.file(tdir + b"/files/" + short + b"/inner", b"old dir")
                        elif what == "payload-dangling-link":
                            w.link(tdir + b"/files/" + short, b"nowhere")
                    continue
                for k in range(many):
                    sfx = b"" if k == 0 else b"_%d" % k
                    what = rng.choice(["pair", "pair", "info-only", "payload-only", "payload-dangling-link", "payload-dir"])
                    if what in ("pair", "info-only"):
                        w.file(tdir + b"/info/" + nm + sfx + b".trashinfo", b"[Trash Info]\nPath=/old\nDeletionDate=2020-01-01T00:00:00\n", 0o600)
                    if what in ("pair", "payload-only"):
                        w.file(tdir + b"/files/" + nm + sfx, b"old " + sfx)
                    if what == "payload-dangling-link":
                        w.link(tdir + b"/files/" + nm + sfx, b"nowhere")
                    if what == "payload-dir":
                        w.file(tdir + b"/files/" + nm + sfx + b"/inner", b"old dir")
                if many > 100 and first_plain and rng.random() < 0.8:
                    # beyond 100 the suffix is a NEW random number at every asking: the first one drawn is taken, the
                    # second one free (that is the name to take), and at the third one a payload without info waits -
                    # whoever asks twice for "the name of this attempt" probes one name and claims another
                    first_plain = False
                    r0, r1, r2 = (b"_%d" % x for x in randints[:3])
                    if len({r0, r1, r2}) == 3 and all(tdir + b"/files/" + nm + x not in w.nodes and tdir + b"/info/" + nm + x + b".trashinfo" not in w.nodes for x in (r0, r1, r2)):
                        w.file(tdir + b"/files/" + nm + r0, b"taken at the first draw")
                        if rng.random() < 0.5:
                            w.file(tdir + b"/files/" + nm + r2, b"orphan at the third draw: must survive")
                        else:
                            w.file(tdir + b"/files/" + nm + r2 + b"/precious", b"orphan directory at the third draw: must survive")
    td0 = opts.get("trashDir")
    if td0 is not None and td0.startswith(R + b"/") and rng.random() < (0.7 if profile == "collide" else 0.3):
        # --trash-dir spelled through a symbolic link followed by '..': the kernel follows the link before going up; a
        # textual collapse names another directory - where a decoy trash directory with the same names waits
        par, bn = os.path.dirname(td0), os.path.basename(td0)
        if par not in w.nodes and par != R and os.path.dirname(par) in w.nodes and w.nodes[os.path.dirname(par)]["k"] == "d":
            w.dir(par)
        if par + b"/jump" not in w.nodes and par + b"/deep" not in w.nodes and (par in w.nodes or par == R):
            w.dir(par + b"/deep/inner")
            w.link(par + b"/jump", par + b"/deep/inner")
            spelled = par + b"/jump/../../" + bn
            lex = os.path.normpath(spelled)
            if lex != td0 and lex.startswith(R + b"/") and lex not in w.nodes and os.path.dirname(lex) in w.nodes:
                opts["trashDir"] = spelled
                w.dir(lex, 0o700)
                w.dir(lex + b"/files", 0o700)
                w.dir(lex + b"/info", 0o700)
                for m_ in meta:
                    if "entry" in m_ and len(os.path.basename(m_["entry"])) < 200:
                        nm = os.path.basename(m_["entry"])
                        w.file(lex + b"/files/" + nm, b"decoy payload: nobody named this directory")
                        w.file(lex + b"/info/" + nm + b".trashinfo", b"[Trash Info]\nPath=/decoy\nDeletionDate=2020-01-01T00:00:00\n", 0o600)
                        w.file(lex + b"/files/" + nm + b"_1/inner", b"decoy dir")
    if focus == "unknown-owner" or rng.random() < 0.2:
        # what stands in the way of a trash directory (and the volume's top directory) belongs to a uid/gid without a passwd
        # or group entry: whoever looks the owner up, for a diagnostic say, finds no name
        for v in vols:
            for q in (v, v + b"/" + DOT_T, v + b"/" + uid_dir(uid)):
                if q in w.nodes and q != R and rng.random() < 0.6:
                    w.nodes[q]["owner"] = 54321
    if (opts.get("homeFallback") and env.get("TRASH_ENABLE_HOME_FALLBACK") == b"1") or \
            any(m_.get("spelling") == "symlink-dotdot" for m_ in meta):
        # where the move may be a copy (home fallback; the lexical-'..' finding, which trashes across volumes) a named pipe
        # is refused by shutil - that is the copy's business, not this model's: plain empty files there
        for n_ in w.nodes.values():
            n_.pop("special", None)
    stdin = None
    if opts.get("mode") == "interactive":
        replies = [rng.choice([b"y", b"Y", b"yes", b"n", b"", b"x", b"N", b" y"]) for _ in range(rng.randint(0, nargs))]
        stdin = b"".join(r + b"\n" for r in replies)
    world = w.world(env=env, uid=uid, cwd=cwd, cmd="put", args=args, opts=opts, argv=put_argv(opts, args),
                    stdin=stdin, randints=randints, meta=meta)
    return world


# ---------------------------------------------------------------------------------------------------
# worlds with populated trash directories (list / restore / empty / rm)
# ---------------------------------------------------------------------------------------------------

DATES = ["2001-01-01 00:00:00", "2001-01-01_00:00:00", "2001-W01-1T00:00:00", "20010101T000000.000", "9999-12-31T23:59:59", "9999-12-25T00:00:00", "2000-01-01T00:00:00\x0c", "2000-01-01T00:00:00\x1d", "2000-01-01T00:00:00\x0b", "2020-01-01T00:00:00", "2024-02-29T23:59:59", "2024-03-01T12:00:00", "2024-03-01T12:00:01", "2024-03-02T12:00:00",
         "2023-12-31T00:00:00", "1999-12-31T23:59:59", "2030-06-15T08:30:00", "2024-3-1T9:5:7", "2024-03-01t12:00:00",
         "2001-01-01T12:00:00+0100", "2001-01-01T12:00:00Z", "2001-01-01T12:00:00-05:00", "2001-01-01T12:00:00 UTC"]
BAD_DATES = ["2001-01-01 00:00:00", "2001-01-01_00:00:00", "2001-W01-1T00:00:00", "20010101T000000.000", "2001-01-01T00:00+01", "2024-02-30T00:00:00", "yesterday", "", "2024-03-01", "2024-03-01T12:00:60", "2024-03-01T12:00:00 ", "2002-02-02T02:02:02+0000", "2002-02-02T02:02:02.000"]
MALFORMED = ["non-trashinfo", "empty", "truncated", "binary", "non-utf8", "no-path", "no-date", "bad-date", "info-only",
             "orphan", "long-orphan", "odd-stem", "info-is-dir", "info-dangling-link", "dup-keys-crlf", "double-suffix", "info-link-outside", "info-link-sibling", "info-link-loop", "info-link-through-file", "info-only-compat-name"]
ORIGIN_NAMES = [b"report.txt", b"a b", b"~", b"foo", b"foobar", b"foo.o", b"FOO", b"notes.trashinfo", b"notes\x0cdraft", b"notes\xe2\x80\xa8final", b"caf\xc3\xa9", b"x%y", b"new\nline", b"-dash", b"d1",
                b"notes", b"\xff\xfe", b"q?", b"[b]", b"*star", b"...", b"....", b"cafe\xcc\x81"]


# 7 levels of 80 three-byte characters: 1.7 KB on disk, 5 KB once percent-encoded in a .trashinfo
DEEP_AREA = b"".join(b"/" + "\u65e5\u672c".encode() * 40 for _ in range(7))


DEEPER_AREA = b"".join(b"/" + "\u65e5\u672c".encode() * 42 + b"%02d" % k_ for k_ in range(11))


def truthy_date(x):
    import re
    return bool(re.match(r"^(\d{4}-\d\d-\d\dT\d\d:\d\d:\d\d|@AGE:-?\d+@)$", x))


def payload(rng, w, p, sentinel):
    k = rng.choice(["file", "file", "tree", "link-out", "tree-links", "empty", "link-dangling"])
    if k == "file":
        w.file(p, rng.choice([b"payload", b"p" * 100, b"\x00\x01"]), rng.choice([0o644, 0o600]))
    elif k == "empty":
        w.file(p, b"")
    elif k == "tree":
        w.dir(p)
        w.file(p + b"/a", b"A")
        w.file(p + b"/sub/b", b"B", 0o600)
    elif k == "link-out":
        w.link(p, rng.choice([sentinel, os.path.dirname(sentinel), b"../../../" + os.path.basename(os.path.dirname(sentinel))]))
    elif k == "link-dangling":
        w.link(p, b"/nonexistent/target")
    elif k == "tree-links":
        w.dir(p)
        w.file(p + b"/keep", b"k")
        w.link(p + b"/to-sentinel-dir", os.path.dirname(sentinel))
        w.link(p + b"/sub/to-sentinel", sentinel)
        w.link(p + b"/sub/dangling", b"nowhere")
        # directories outside that the owner cannot write or search: nothing may change their mode on the way
        ro = os.path.dirname(sentinel) + b"/ro"
        if ro in w.nodes:
            w.link(p + b"/to-ro", ro)
            w.link(p + b"/sub/to-ro-x", ro + b"-nox")
    return k


def add_good(rng, w, tdir, base, name, loc, date, sentinel, kinds):
    """a well-formed pair; `loc` is absolute; it is recorded relative to `base` when base is given"""
    if base is not None and loc.startswith(base.rstrip(b"/") + b"/") and rng.random() < 0.9:
        rec = loc[len(base.rstrip(b"/")) + 1:]
    else:
        rec = loc
    from urllib.parse import quote
    q = quote(rec, "/").encode()
    if rng.random() < 0.6:
        # other implementations leave such characters raw in the value: form feed, U+2028 are no line ends of a .trashinfo
        q = q.replace(b"%0C", b"\x0c").replace(b"%E2%80%A8", b"\xe2\x80\xa8")
    style = rng.random()
    if style < 0.03:
        # 9 KB of another key before Path and DeletionDate (the reader must not stop at a buffer's worth)
        text = b"[Trash Info]\nX-Comment=" + b"padding " * 1150 + b"\nPath=" + q + b"\nDeletionDate=" + date.encode("latin-1") + b"\n"
    elif style < 0.08:
        # an old date buried behind an exotic line separator inside another key's value: not a line of its own
        text = (b"[Trash Info]\nX-Note=a" + rng.choice([b"\x1d", b"\x0c", b"\x0b", b"\xc2\x85", b"\xe2\x80\xa8"]) +
                b"DeletionDate=1990-01-01T00:00:00\nPath=" + q + b"\nDeletionDate=" + date.encode("latin-1") + b"\n")
    elif style < 0.8:
        text = b"[Trash Info]\nPath=" + q + b"\nDeletionDate=" + date.encode("latin-1") + b"\n"
    elif style < 0.9:
        text = b"[Trash Info]\r\nPath=" + q + b"\r\nDeletionDate=" + date.encode("latin-1") + b"\r\n"
    else:
        text = b"[Trash Info]\nX-Extra=1\nDeletionDate=" + date.encode("latin-1") + b"\nPath=" + q + b"\nPath=/ignored\nDeletionDate=1990-01-01T00:00:00\n"
    w.file(tdir + b"/info/" + name + b".trashinfo", text, 0o600)
    kinds.append(payload(rng, w, tdir + b"/files/" + name, sentinel))
    return rec


def add_malformed(rng, w, tdir, kind, i, good_names=None, base=None):
    n = b"m%d" % i
    info = tdir + b"/info/"
    if kind == "non-trashinfo":
        w.file(info + rng.choice([b"README", b"x.trashinfo~", b"trashinfo", b"a.TRASHINFO"]), b"junk")
    elif kind == "empty":
        w.file(info + n + b".trashinfo", b"")
        w.file(tdir + b"/files/" + n, b"p")
    elif kind == "truncated":
        w.file(info + n + b".trashinfo", b"[Trash Info]\nPa")
        w.file(tdir + b"/files/" + n, b"p")
    elif kind == "binary":
        w.file(info + n + b".trashinfo", bytes(range(256)) * 2)
        w.file(tdir + b"/files/" + n, b"p")
    elif kind == "non-utf8":
        # (a relative Path only where it is relative to a volume inside the sandbox: in the home trash it would be relative to
        #  the real root directory)
        rel = b"w/" if base is not None else b"/SBX/w/"
        w.file(info + n + b".trashinfo", b"[Trash Info]\nPath=" + rng.choice([b"/SBX/w/\xff\xfe-%d" % i, rel + b"\xe9t\xe9-%d" % i, b"/SBX/w/caf\xe9%%20au%%20lait-%d" % i,
                                                                         rel + b"%%41\xff%%zz-%d" % i]) + b"\nDeletionDate=2024-03-01T12:00:00\n")
        w.file(tdir + b"/files/" + n, b"p")
    elif kind == "no-path":
        w.file(info + n + b".trashinfo", b"[Trash Info]\nDeletionDate=2020-01-01T00:00:00\n")
        w.file(tdir + b"/files/" + n, b"p")
    elif kind == "no-date":
        w.file(info + n + b".trashinfo", b"[Trash Info]\nPath=" + R + b"/w/nodate%d\n" % i)
        w.file(tdir + b"/files/" + n, b"p")
    elif kind == "bad-date":
        w.file(info + n + b".trashinfo", b"[Trash Info]\nPath=" + R + b"/w/baddate%d\nDeletionDate=" % i + rng.choice(BAD_DATES).encode() + b"\n")
        w.file(tdir + b"/files/" + n, b"p")
    elif kind == "info-only":
        w.file(info + n + b".trashinfo", b"[Trash Info]\nPath=" + R + b"/w/infoonly%d\nDeletionDate=2020-01-01T00:00:00\n" % i)
    elif kind == "orphan":
        w.file(tdir + b"/files/" + rng.choice([n, b"orphan dir/x", b"foo"]), b"orphan")
    elif kind == "long-orphan":
        # a payload without an info file whose name is so long that "<name>.trashinfo" is no valid file name any more
        w.file(tdir + b"/files/" + b"L" * (246 + i % 10), b"orphan with a long name")
    elif kind == "odd-stem":
        w.file(info + rng.choice([b".trashinfo", b"..trashinfo", b"...trashinfo"]),
               b"[Trash Info]\nPath=" + R + b"/w/odd\nDeletionDate=2020-01-01T00:00:00\n")
    elif kind == "info-is-dir":
        w.dir(info + n + b".trashinfo")
        w.file(tdir + b"/files/" + n, b"p")
    elif kind == "info-dangling-link":
        w.link(info + n + b".trashinfo", b"nowhere")
    elif kind == "info-only-compat-name":
        # an info file without payload whose name is U+2025 (two dot leader; its compatibility form is "..")
        w.file(info + "\u2025".encode() + b".trashinfo", b"[Trash Info]\nPath=" + R + b"/w/gone%d\nDeletionDate=2020-01-01T00:00:00\n" % i)
    elif kind == "info-link-loop":
        w.link(info + n + b".trashinfo", rng.choice([n + b".trashinfo", info + n + b".trashinfo"]))      # a link to itself: ELOOP
    elif kind == "info-link-through-file":
        good = [x for x in (good_names or []) if info + x + b".trashinfo" in w.nodes and w.nodes[info + x + b".trashinfo"]["k"] == "f"]
        w.link(info + n + b".trashinfo", (rng.choice(good) + b".trashinfo/x") if good else b"../files/../info/README/x")   # ENOTDIR
        if not good:
            w.file(info + b"README", b"junk")
    elif kind == "info-link-outside":
        # the info file is a symbolic link to a well-formed .trashinfo kept elsewhere, next to a files/ directory of its own:
        # purging the entry unlinks the link and this trash directory's payload, nothing where the link leads
        w.file(R + b"/outside/archive/records/saved%d.trashinfo" % i, b"[Trash Info]\nPath=" + R + b"/w/saved%d\nDeletionDate=2001-01-01T00:00:00\n" % i)
        w.file(R + b"/outside/archive/files/saved%d" % i, b"precious: not in any trash directory in scope")
        w.file(R + b"/outside/archive/files/" + n, b"precious too")
        w.link(info + n + b".trashinfo", R + b"/outside/archive/records/saved%d.trashinfo" % i)
        w.file(tdir + b"/files/" + n, b"payload of the linked info")
    elif kind == "info-link-sibling":
        # ... or to the info file of a well-formed entry of the same directory
        good = [x for x in (good_names or []) if info + x + b".trashinfo" in w.nodes and w.nodes[info + x + b".trashinfo"]["k"] == "f"]
        if good:
            w.link(info + n + b".trashinfo", rng.choice(good) + b".trashinfo")
            w.file(tdir + b"/files/" + n, b"payload of the info that is a link to a sibling")
    elif kind == "double-suffix":
        # info/<N>.trashinfo.trashinfo without payload of its own, next to the well-formed entry <N>: old, matches "*"
        good = [x for x in (good_names or []) if info + x + b".trashinfo.trashinfo" not in w.nodes]
        if good:
            g = rng.choice(good)
            w.file(info + g + b".trashinfo.trashinfo",
                   b"[Trash Info]\nPath=" + R + b"/w/dbl-suffix/" + g + b".trashinfo\nDeletionDate=1990-01-01T00:00:00\n")
    elif kind == "dup-keys-crlf":
        w.file(info + n + b".trashinfo", b"Path=" + R + b"/w/dup%d\r\nPath=/other\r\nDeletionDate=2021-05-05T05:05:05\r\nDeletionDate=bad\r\n" % i)
        w.file(tdir + b"/files/" + n, b"p")


def gen_trash_world(rng, cmd, profile="mixed", real_clock=None):
    """profile: 'mixed' | 'clean' (well-formed entries only) | 'malformed' (many bad neighbours)"""
    w = W()
    uid = rng.choice([0, 1000, 1000, 65534])
    home = w.dir(R + b"/home/" + rng.choice(HOME_NAMES))
    vols = volume_layout(rng, w, uid, profile)
    env = {"HOME": home}
    if rng.random() < 0.2:
        env["XDG_DATA_HOME"] = rng.choice([home + b"/xdg", b"", home + b"/my.info", R + b"/data/xinfo", home + b"/data "])
    elif rng.random() < 0.06:
        # neither HOME nor XDG_DATA_HOME (cron, env -i): no home trash directory; the volumes' ones are judged as ever
        del env["HOME"]
    sentinel = w.file(R + b"/outside/sentinel", b"must survive")
    w.file(R + b"/outside/other", b"also")
    w.dir(R + b"/outside/ro", 0o555)
    w.dir(R + b"/outside/ro-nox", 0o600)
    # the trash dirs the commands may visit
    tdirs = []
    hx_ = (env.get("XDG_DATA_HOME") or home + b"/.local/share") + (b"/Trash")
    if "HOME" in env or env.get("XDG_DATA_HOME"):
        tdirs.append((hx_, None))
    for v in vols:
        top = v + b"/.Trash"
        if top in w.nodes and w.nodes[top]["k"] != "f":
            real = top if w.nodes[top]["k"] == "d" else v + b"/real-trash"
            tdirs.append((real + b"/%d" % uid, v))
        alt = v + b"/" + uid_dir(uid)
        if alt not in w.nodes or w.nodes[alt]["k"] == "d":
            tdirs.append((alt, v))
    custom = None
    custom_spelling = None
    if rng.random() < 0.25:
        custom = rng.choice([R + b"/custom-trash", rng.choice(vols) + b"/ct"])
        tdirs.append((custom, None))
        if rng.random() < 0.35:
            # the same directory named through a symbolic link and '..': the kernel follows the link first, a textual
            # collapse of "link/.." would name another directory (where a decoy trash directory waits)
            par = os.path.dirname(custom)
            w.dir(par + b"/deep/inner")
            w.link(par + b"/deep/inner/up", b"../..")
            custom_spelling = par + b"/deep/inner/up/" + os.path.basename(custom)     # = custom for the kernel
            decoy = par + b"/deep/inner/" + os.path.basename(custom)                   # what "up/.." would collapse to... not used
            w.link(par + b"/jump", par + b"/deep/inner")
            custom_spelling = par + b"/jump/../../" + os.path.basename(custom)          # kernel: par/deep/inner/../../X = par/X
            lex = os.path.normpath(custom_spelling)                                    # lexical: par/../X
            if lex != custom and lex.startswith(R + b"/") and lex not in w.nodes:
                w.dir(lex, 0o700)
                w.dir(lex + b"/files", 0o700)
                w.dir(lex + b"/info", 0o700)
                w.file(lex + b"/files/decoy-orphan", b"must survive: nobody named this directory")
                w.file(lex + b"/info/decoy.trashinfo", b"[Trash Info]\nPath=" + R + b"/w/decoy\nDeletionDate=1990-01-01T00:00:00\n", 0o600)
                w.file(lex + b"/files/decoy", b"decoy payload")
    names = list(ORIGIN_NAMES)
    rng.shuffle(names)
    # trash-empty without TRASH_DATE: the real clock, read in the user's time zone (a fixed offset far from UTC).  Dates are
    # ages relative to the moment of the run ("@AGE:<seconds>@", filled in when the world is evaluated, see readcheck),
    # at least three hours away from every whole number of days
    real_clock = cmd == "empty" and ((rng.random() < 0.15) if real_clock is None else real_clock)
    dst_world = cmd == "empty" and not real_clock and rng.random() < 0.12
    dst_dates = ["2024-10-25T12:00:00", "2024-10-25T12:00:01", "2024-10-25T12:30:00", "2024-10-25T11:30:00", "2024-03-25T11:30:00",
                 "2024-03-25T11:59:59", "2024-03-25T12:00:00", "2024-10-29T01:30:00", "2024-10-29T00:45:00", "2024-03-05T12:00:00",
                 "2024-03-05T11:15:00", "2024-03-05T12:40:00"]
    rc_days = rng.choice([0, 1, 2, 7, 30])
    # (most ages sit three hours on either side of the limit the run will use: a clock read in the wrong zone moves them across)
    age_dates = ["@AGE:%d@" % -(k * 86400 + h * 3600) for k in (0, 1, 2, 7, 30) for h in (3, 12, 21)] + \
                ["@AGE:%d@" % -(rc_days * 86400 + h * 3600) for h in (3, -3, 5, -5)] * 3
    entries = []
    kinds = []
    k = 0
    for tdir, base in tdirs:
        if rng.random() < 0.25:
            continue
        w.dir(tdir, 0o700)
        w.dir(tdir + b"/files", 0o700)
        w.dir(tdir + b"/info", 0o700)
        ngood = rng.choice([0, 1, 2, 2, 3, 4]) if profile != "malformed" else rng.choice([1, 2, 3])
        for _ in range(ngood):
            nm = names[k % len(names)]
            k += 1
            area = (base if base is not None else R) + rng.choice(
                [b"/w", b"/w/deep/er", b"/home/u/docs", b"/w/caf\xc3\xa9-d", b"/w/cafe\xcc\x81-d", DEEP_AREA, DEEPER_AREA] if base is None else
                [b"/stuff", b"/stuff/sub", b"/stuff/caf\xc3\xa9-d", b"/stuff/cafe\xcc\x81-d", DEEP_AREA, DEEPER_AREA])
            loc = area + b"/" + nm
            tname = nm + rng.choice([b"", b"", b"_1", b"_2"])
            if tdir + b"/info/" + tname + b".trashinfo" in w.nodes:
                continue
            date = rng.choice(age_dates if real_clock else (dst_dates if dst_world else DATES))
            rec = add_good(rng, w, tdir, base, tname, loc, date, sentinel, kinds)
            entries.append({"tdir": tdir, "name": tname, "loc": loc, "rec": rec, "date": date, "base": base})
            if rng.random() < 0.12:
                # the same original location trashed a second time (another generation of the file)
                d2 = rng.choice([x for x in (age_dates if real_clock else DATES) if truthy_date(x) and x != date])
                if truthy_date(date) and rng.random() < 0.4:
                    d2 = date           # trashed twice within the same second: two entries, identical line
                t2 = nm + b"_%d" % rng.randint(3, 9)
                if tdir + b"/info/" + t2 + b".trashinfo" not in w.nodes:
                    rec2 = add_good(rng, w, tdir, base, t2, loc, d2, sentinel, kinds)
                    entries.append({"tdir": tdir, "name": t2, "loc": loc, "rec": rec2, "date": d2, "base": base, "dup": True})
        if rng.random() < 0.25:
            w.file(tdir + b"/directorysizes", b"4096 1600000000 gone-dir\n120 1600000001 also%20gone\nnot a line\n")
        nbad = {"clean": 0, "mixed": rng.choice([0, 0, 1, 2]), "malformed": rng.choice([2, 3, 5])}[profile]
        for j in range(nbad):
            # (an info file that is a link to a sibling's couples the two entries once one of them is purged - the recorded
            #  C14 finding; for the commands that do not purge it is simply one more entry with the same location and date)
            kinds_ok = [k_ for k_ in MALFORMED if k_ != "info-link-sibling" or cmd in ("list", "restore")]
            add_malformed(rng, w, tdir, rng.choice(kinds_ok), 100 * len(entries) + j,
                          good_names=[e["name"] for e in entries if e["tdir"] == tdir], base=base)
        for e in [e for e in entries if e["tdir"] == tdir]:
            for p_, n_ in list(w.nodes.items()):
                if n_["k"] == "l" and p_.startswith(tdir + b"/info/") and n_["target"] == e["name"] + b".trashinfo" \
                        and not any(x["tdir"] == tdir and x["name"] == p_[len(tdir) + 6:-10] for x in entries):
                    entries.append(dict(e, name=p_[len(tdir) + 6:-10], dup=True, via_link=True))
    # canonically equivalent but different names: two entries whose names, and two whose directories, differ only in the
    # Unicode normalisation form (NFC / NFD).  They are different paths.
    nf_pair = []
    made = [(t, b) for t, b in tdirs if t + b"/info" in w.nodes]
    if made and rng.random() < 0.15:
        tdir, base = rng.choice(made)
        area = (base if base is not None else R) + b"/nf"
        for tn, loc in ((b"nfc-name", area + b"/caf\xc3\xa9.txt"), (b"nfd-name", area + b"/cafe\xcc\x81.txt"),
                        (b"nfc-dir", area + b"/r\xc3\xa9sum\xc3\xa9/cv"), (b"nfd-dir", area + b"/re\xcc\x81sume\xcc\x81/cv2")):
            if tdir + b"/info/" + tn + b".trashinfo" in w.nodes:
                continue
            date = rng.choice([x for x in (age_dates if real_clock else DATES) if truthy_date(x)])
            rec = add_good(rng, w, tdir, base, tn, loc, date, sentinel, kinds)
            e = {"tdir": tdir, "name": tn, "loc": loc, "rec": rec, "date": date, "base": base}
            entries.append(e)
            nf_pair.append(e)
    crowded = False
    if cmd == "restore" and made and rng.random() < 0.06:
        tdir, base = rng.choice(made)
        area = (base if base is not None else R) + b"/crowd"
        for j in range(13):
            tn = b"crowd%02d" % j
            date = "2022-02-%02dT10:00:00" % (j + 1)
            rec = add_good(rng, w, tdir, base, tn, area + b"/" + tn, date, sentinel, kinds)
            entries.append({"tdir": tdir, "name": tn, "loc": area + b"/" + tn, "rec": rec, "date": date, "base": base})
        crowded = True
    tilde = False
    if cmd == "rm" and made and "HOME" in env and rng.random() < 0.1:
        tdir, base = rng.choice(made)
        for tn, loc in ((b"tilde-name", ((base if base is not None else R) + b"/w/~")), (b"home-itself", env["HOME"])):
            if tdir + b"/info/" + tn + b".trashinfo" not in w.nodes:
                date = rng.choice([x for x in DATES if truthy_date(x)])
                rec = add_good(rng, w, tdir, base, tn, loc, date, sentinel, kinds)
                entries.append({"tdir": tdir, "name": tn, "loc": loc, "rec": rec, "date": date, "base": base})
                tilde = True
    # the same location recorded twice, once with a date and once without a readable one: a sort key built from both
    # fields must order them all the same
    undated_twin = False
    dated = [e for e in entries if truthy_date(e["date"]) and not e["date"].startswith("@")]
    if cmd == "restore" and dated and rng.random() < 0.12:
        e = rng.choice(dated)
        tn = e["name"] + b"_u"
        if e["tdir"] + b"/info/" + tn + b".trashinfo" not in w.nodes:
            d2 = rng.choice(["", "garbage", "2024-02-30T00:00:00", "2024-03-01"])
            rec2 = add_good(rng, w, e["tdir"], e["base"], tn, e["loc"], d2, sentinel, kinds)
            entries.append({"tdir": e["tdir"], "name": tn, "loc": e["loc"], "rec": rec2, "date": d2, "base": e["base"], "dup": True})
            undated_twin = True
    # some destinations already exist (restore must refuse / overwrite)
    for e in entries:
        r = rng.random()
        if r < 0.12:
            w.file(e["loc"], b"existing")
            e["dest"] = "file"
        elif r < 0.17:
            w.dir(e["loc"])
            e["dest"] = "dir"
        elif r < 0.22:
            w.link(e["loc"], rng.choice([b"nowhere", sentinel]))
            e["dest"] = "link"
        elif r < 0.27 and cmd == "restore":
            # what stands at the original location is the trashed file itself under another name: a hard link of the
            # payload, or a symbolic link to it (same inode: rename(2) between two such names does nothing and says OK)
            pay = e["tdir"] + b"/files/" + e["name"]
            pn = w.nodes.get(pay)
            if pn is not None and pn["k"] == "f" and not pn.get("special") and b"\n" not in e["loc"] and e["loc"] not in w.nodes:
                if rng.random() < 0.6:
                    w.file(e["loc"], pn.get("data", b""), pn.get("mode", 0o644))
                    if e["loc"] in w.nodes:
                        w.nodes[e["loc"]].update(mtime=pn.get("mtime"), hardlink=pay)
                        e["dest"] = "hardlink-of-payload"
                else:
                    w.link(e["loc"], pay)
                    if e["loc"] in w.nodes:
                        e["dest"] = "link-to-payload"
        elif r < 0.6:
            w.dir(os.path.dirname(e["loc"]))
    cwd = rng.choice([R, home, R + b"/w"] + [v for v in vols] + [os.path.dirname(e["loc"]) for e in entries[:3]])
    if cwd not in w.nodes or w.nodes[cwd]["k"] != "d":
        w.dir(cwd)
    opts, args, stdin = {}, [], None
    if cmd == "restore" and rng.random() < 0.15 and R + b"/lnk-cwd" not in w.nodes and cwd != R:
        # the shell's idea of the current directory ($PWD) spells it through a symbolic link; trash-restore asks the
        # kernel where it is, as trash-put did when it recorded the locations
        w.link(R + b"/lnk-cwd", cwd)
        env["PWD"] = R + b"/lnk-cwd"
    if cmd == "list":
        if custom and rng.random() < 0.7:
            opts["userDirs"] = [custom_spelling or custom] + ([tdirs[0][0]] if rng.random() < 0.3 else [])
    elif cmd == "restore":
        opts["sort"] = rng.choice(["date", "date", "path", "none"] if not undated_twin else ["path", "path", "path", "date", "none"])
        if custom and rng.random() < 0.7:
            opts["trashDir"] = custom_spelling or custom
        if rng.random() < 0.3 or (any(e.get("dest") in ("hardlink-of-payload", "link-to-payload") for e in entries) and rng.random() < 0.6):
            opts["overwrite"] = True
        if rng.random() < 0.4 and entries:
            e = rng.choice(nf_pair if nf_pair and rng.random() < 0.7 else entries)
            opts["path"] = rng.choice([os.path.dirname(e["loc"]), e["loc"], os.path.dirname(os.path.dirname(e["loc"])), b"/", b"w", b"."])
            if rng.random() < 0.25:
                # the same directory named through a symbolic link: entries are matched by their recorded text, not by
                # where the link leads
                par = os.path.dirname(e["loc"])
                if par not in w.nodes:
                    w.dir(par)
                if w.nodes[par]["k"] == "d" and R + b"/lnk-to-area" not in w.nodes:
                    w.link(R + b"/lnk-to-area", par)
                    opts["path"] = rng.choice([R + b"/lnk-to-area", R + b"/lnk-to-area/", R + b"/lnk-to-area/" + os.path.basename(e["loc"])])
        n = len(entries)
        reply = rng.choice([b"0", b"0", b"1", b"0-1", b"0,1", b"1,0", b"", b"x", b"9", b"0-", b"1-2-3", b" 0 ", b"+1", b"0-%d" % max(n - 1, 0),
                            b"%d" % max(n - 1, 0), b"2,2", b"3-1", b"0,,1"])
        if crowded:
            reply = rng.choice([b"2-10", b"9-11", b"9-11,0-1", b"3-12", b"10-12", b"1-10", b"8-9,10", b"2-10,12"])
        stdin = None if rng.random() < 0.05 else reply + b"\n"
    elif cmd == "empty":
        now = rng.choice(["2024-03-02T12:00:00", "2024-03-01T12:00:00", "2024-03-08T12:00:00", "2025-03-01T12:00:00", "2020-01-01T00:00:00"])
        env["TRASH_DATE"] = now.encode()
        y, mo, d = map(int, now[:10].split("-"))
        H, M, S = map(int, now[11:].split(":"))
        opts["now"] = [y, mo, d, H, M, S]
        if rng.random() < 0.6:
            opts["days"] = rng.choice([0, 1, 1, 2, 7, 30, 365, 10 ** 6, 10 ** 9])
        if rng.random() < 0.3:
            opts["dryRun"] = True
        if rng.random() < 0.3:
            opts["verbose"] = rng.choice([1, 2])
        if rng.random() < 0.4:
            opts["interactive"] = True
            if rng.random() < 0.4:
                opts["ttyDefault"] = True       # no -i on the command line: stdin is a terminal
            stdin = None if rng.random() < 0.1 else rng.choice([b"y", b"Y", b"yes", b"n", b"", b"N", b" y", b"x", b"Yes please", "\uff59".encode(), "\uff39es".encode(),
                                                              "\u02b8".encode(), "\u24e8".encode(), "\u00fd".encode(), b"\xff"]) + b"\n"
        elif rng.random() < 0.3:
            opts["ttyDefault"] = True           # neither -i nor -f and stdin is not a terminal: no question
        if custom and rng.random() < 0.6:
            opts["userDirs"] = [custom_spelling or custom]
        if dst_world and not real_clock:
            env["TZ"] = rng.choice([b"CET-1CEST,M3.5.0,M10.5.0/3", b"EST5EDT,M3.2.0,M11.1.0", b"CET-1CEST,M3.5.0,M10.5.0/3"])
            now = rng.choice(["2024-11-01T12:00:00", "2024-04-01T12:00:00", "2024-11-05T01:30:00", "2024-03-12T12:00:00"])
            env["TRASH_DATE"] = now.encode()
            y, mo, d = map(int, now[:10].split("-"))
            H, M, S = map(int, now[11:].split(":"))
            opts["now"] = [y, mo, d, H, M, S]
            opts["days"] = 7
        if real_clock:
            del env["TRASH_DATE"]
            off = rng.choice([9, -8, 12, -11, 0])
            env["TZ"] = b"XXX%+d" % -off           # POSIX TZ: "XXX-9" is nine hours EAST of Greenwich
            opts["realClock"] = {"utcOffsetHours": off}
            opts["days"] = rc_days if "days" in opts or rng.random() < 0.85 else None
            if opts["days"] is None:
                del opts["days"]
        if not opts.get("ttyDefault") and rng.random() < 0.25:
            # -f and -i together: as with rm, the last one wins
            if opts.get("interactive"):
                opts["flags"] = rng.choice([[b"-f", b"-i"], [b"-fi"], [b"-f", b"--interactive"], [b"-i", b"-f", b"-i"]])
            else:
                opts["flags"] = rng.choice([[b"-i", b"-f"], [b"-if"], [b"--interactive", b"-f"], [b"-f", b"-i", b"-f"]])
    elif cmd == "rm":
        pats = [b"*", b"foo", b"foo*", b"*.o", b"F*", b"?oo", b"[fF]oo", b"/SBX/*", b"*/w/*", b"nomatch", b"a b", b"caf*", b"[!f]*", b"*\n*", b"d1",
                b"*.txt", b"*r", b"*s", b"*[!o]", b"gone*", b"*.trashinfo*", b"foo/", b"*/", b"d1//", b"~", b"~root", b"~/foo", b"~*"]
        if entries:
            e = rng.choice(entries)
            pats += [os.path.basename(e["loc"]), e["loc"], os.path.dirname(e["loc"]) + b"/*", e["loc"] + b"/", os.path.basename(e["loc"]) + b"/"]
        if nf_pair and rng.random() < 0.8:
            e = rng.choice(nf_pair)
            pats = [os.path.basename(e["loc"]), e["loc"], os.path.dirname(e["loc"]) + b"/*", b"caf\xc3\xa9*", b"*/r\xc3\xa9sum\xc3\xa9/*"]
        if tilde:
            pats = [b"~", b"~", b"~root", b"~*", b"*~"]
        args = [rng.choice(pats)]
    extra = {}
    if rng.random() < 0.2 and len(w.mounts) > 1:
        # the listing spells some mount points with a trailing slash (as it always does for "/")
        extra["mountTable"] = [m + b"/" if (m != R and rng.random() < 0.7) else m for m in w.mounts]
    world = w.world(env=env, uid=uid, cwd=cwd, cmd=cmd, opts=opts, args=args, stdin=stdin, **extra,
                    meta={"entries": entries, "tdirs": tdirs, "profile": profile, "payload_kinds": kinds, "sentinels": [R + b"/outside"]})
    from .model import cmd_argv
    world["argv"] = cmd_argv(world)
    return world


def gen_fault_world(rng, where=None, force=None):
    """one argument, rename-able into the first or a later candidate: the world of a C17 fault sweep"""
    w = W()
    uid = rng.choice([0, 1000])
    home = w.dir(R + b"/home/" + rng.choice(HOME_NAMES))
    where = rng.choice(["home", "top", "alt", "alt-after-insecure-top", "custom"]) if where is None else where
    env = {"HOME": home}
    opts = {}
    if where == "home":
        d = home + b"/docs"
    else:
        w.mount(R + b"/vol1")
        d = R + b"/vol1/stuff"
        if where == "top":
            w.dir(R + b"/vol1/.Trash", 0o1777)
        elif where == "alt-after-insecure-top":
            w.dir(R + b"/vol1/.Trash", 0o777)
        elif where == "custom":
            opts["trashDir"] = R + b"/vol1/ct"
        elif where == "fallback":
            # the volume's .Trash-$uid is usable; when a fault strikes there, the home trash of the other volume takes over
            # by way of the home fallback (a copy) - with the location recorded as the home trash records it
            opts["homeFallback"] = True
            env["TRASH_ENABLE_HOME_FALLBACK"] = b"1"
    w.dir(d)
    name = rng.choice([b"f", b"a b", b"caf\xc3\xa9"])
    kind = make_entry(rng, w, d, name, rng.choice(["file", "tree", "link-file", "link-dangling", "empty"]))
    if rng.random() < 0.4:
        # a collision on the first name
        t = {"home": home + b"/.local/share/Trash", "top": R + b"/vol1/.Trash/%d" % uid, "custom": R + b"/vol1/ct"}.get(
            where, R + b"/vol1/" + uid_dir(uid))
        w.dir(t, 0o700)
        w.dir(t + b"/files", 0o700)
        w.dir(t + b"/info", 0o700)
        w.file(t + b"/info/" + name + b".trashinfo", b"[Trash Info]\nPath=/x\nDeletionDate=2020-01-01T00:00:00\n", 0o600)
        if rng.random() < 0.5:
            w.file(t + b"/files/" + name, b"older")
        else:
            # ... a dead info file (no payload) at the first name, and at the next one a payload nobody has an info for
            if rng.random() < 0.5:
                w.file(t + b"/files/" + name + b"_1", b"orphan: must survive")
            else:
                w.file(t + b"/files/" + name + b"_1/precious", b"orphan directory: must survive")
    cwd = rng.choice([d, home])
    arg = rng.choice([d + b"/" + name, relpath(d + b"/" + name, cwd)])
    if (rng.random() < 0.35) if force is None else force:
        # -f only silences "does not exist" for arguments that do not exist: a failure to trash an existing entry is
        # reported all the same, whatever the errno
        opts["mode"] = "force"
    if rng.random() < 0.2:
        opts["verbose"] = rng.choice([1, 2])
    meta = [{"class": "entry", "kind": kind, "spelling": "abs" if arg.startswith(b"/") else "rel", "entry": d + b"/" + name,
             "where": where}]
    return w.world(env=env, uid=uid, cwd=cwd, cmd="put", args=[arg], opts=opts, argv=put_argv(opts, [arg]), stdin=None,
                   randints=[7, 8, 9], meta=meta)
