"""Seeded, type-directed generators of worlds for the five commands."""
import os

from .model import W, put_argv
from .sandbox import MODEL_ROOT

R = MODEL_ROOT
NAMES = [b"f", b"a b", b"x.txt", b"-dash", b"new\nline", b"per%cent", b"caf\xc3\xa9", b"\xff\xfe", b"q?*[", b".hidden",
         b"foo", b"foo.trashinfo", b"tab\there", b"a=b", b"\xe2\x82\xac", b"UP", b"up", b"~", b"#h", b"+p", b"d1", b"d2"]
SAFE_NAMES = [b"f", b"foo", b"x.txt", b"UP", b"d1", b"d2", b"a b", b".hidden"]
DOT_T = b".Trash"


def uid_dir(uid):
    return b".Trash-%d" % uid


def volume_layout(rng, w, uid, profile="mixed"):
    """mount table + state of the shared/alt trash dirs of every volume; returns the volume list"""
    vols = [R]
    if rng.random() < 0.35:
        w.mount(R + b"/home")
        vols.append(R + b"/home")
    for v in (R + b"/vol1", R + b"/vol2"):
        if rng.random() < 0.6:
            w.mount(v)
            vols.append(v)
    if R + b"/vol1" in vols and rng.random() < 0.3:
        w.mount(R + b"/vol1/nest")
        vols.append(R + b"/vol1/nest")
    for v in vols:
        st = rng.choice(["absent", "absent", "sticky", "sticky", "nonsticky", "link-sticky", "link-nonsticky", "file"])
        t = v + b"/" + DOT_T
        if st == "sticky":
            w.dir(t, 0o1777)
        elif st == "nonsticky":
            w.dir(t, 0o777)
        elif st.startswith("link"):
            real = v + b"/real-trash"
            w.dir(real, 0o1777 if st == "link-sticky" else 0o777)
            w.link(t, rng.choice([b"real-trash", real]))
        elif st == "file":
            w.file(t, b"not a dir")
        if st in ("sticky", "nonsticky") and rng.random() < 0.4:
            w.dir(t + b"/%d" % uid, 0o700)
        elif st.startswith("link") and rng.random() < 0.4:
            w.dir(v + b"/real-trash/%d" % uid, 0o700)
        alt = rng.choice(["absent", "absent", "dir", "dir", "file", "link-other"])
        a = v + b"/" + uid_dir(uid)
        if alt == "dir":
            w.dir(a, 0o700)
        elif alt == "file":
            w.file(a, b"x")
        elif alt == "link-other" and len(vols) > 1:
            other = rng.choice([x for x in vols if x != v])
            w.dir(other + b"/alt-target", 0o700)
            w.link(a, other + b"/alt-target")
    return vols


def make_entry(rng, w, d, name, kind=None):
    """create one entry of a random kind in directory d; returns its kind"""
    kind = kind or rng.choice(["file", "file", "empty", "tree", "tree", "link-file", "link-dir", "link-dangling",
                               "link-abs"])
    p = d + b"/" + name
    if kind == "file":
        w.file(p, rng.choice([b"data", b"hello\n", b"\x00\xff bin", b"x" * 300]), rng.choice([0o644, 0o600, 0o755, 0o444]))
    elif kind == "empty":
        w.file(p, b"")
    elif kind == "tree":
        w.dir(p, rng.choice([0o755, 0o700]))
        w.file(p + b"/in1", b"one")
        if rng.random() < 0.6:
            w.file(p + b"/sub/in2", b"two", 0o600)
            w.link(p + b"/sub/lnk", rng.choice([b"../in1", b"/nonexistent", R + b"/home"]))
        if rng.random() < 0.3:
            w.dir(p + b"/emptydir")
    elif kind == "link-file":
        w.file(d + b"/tgt-" + name, b"target data")
        w.link(p, b"tgt-" + name)
    elif kind == "link-dir":
        w.file(d + b"/tgtd-" + name + b"/inside", b"keep me")
        w.link(p, b"tgtd-" + name)
    elif kind == "link-dangling":
        w.link(p, b"no-such-target")
    elif kind == "link-abs":
        w.file(R + b"/abs-target", b"abs")
        w.link(p, R + b"/abs-target")
    return kind


def populate_trash(rng, w, tdir, names, n):
    """pre-existing trash content: pairs, orphans both ways"""
    for _ in range(n):
        nm = rng.choice(names) + rng.choice([b"", b"", b"_1", b"_2"])
        what = rng.choice(["pair", "pair", "info-only", "payload-only", "payload-dangling-link"])
        if what in ("pair", "info-only"):
            w.file(tdir + b"/info/" + nm + b".trashinfo",
                   b"[Trash Info]\nPath=" + rng.choice([b"/SBX/old/", b"old/"]) + b"x\nDeletionDate=2020-01-01T00:00:00\n", 0o600)
        if what in ("pair", "payload-only"):
            w.file(tdir + b"/files/" + nm, b"old payload " + nm)
        if what == "payload-dangling-link":
            w.link(tdir + b"/files/" + nm, b"nowhere")


def relpath(path, start):
    return os.path.relpath(path, start)


def spell(rng, w, entry, cwd, kind):
    """one of many spellings of `entry` (absolute model path) as seen from cwd"""
    d, name = os.path.split(entry)
    rel = relpath(entry, cwd)
    choices = ["rel", "rel", "abs", "dot", "slash", "slashes", "dotdot", "abs-slash", "dslash-abs", "via-link-parent",
               "symlink-dotdot"]
    c = rng.choice(choices)
    if c == "symlink-dotdot":
        # d/lk -> R/other/sub ; "d/lk/../name" designates R/other/name for the kernel, d/name lexically
        w.dir(R + b"/other/sub")
        w.file(R + b"/other/" + name, b"the entry the kernel designates")
        lk = d + b"/lk-elsewhere"
        w.link(lk, R + b"/other/sub")
        return relpath(lk, cwd) + b"/../" + name, c
    if c == "rel":
        return rel, c
    if c == "abs":
        return entry, c
    if c == "dot":
        return b"./" + rel, c
    if c == "slash":
        return rel + b"/", c
    if c == "slashes":
        return rel + b"//", c
    if c == "abs-slash":
        return entry + b"/", c
    if c == "dslash-abs":
        return b"/" + entry, c
    if c == "dotdot":
        # through a real sibling directory and back
        sib = d + b"/sibling-dir"
        if sib not in w.nodes:
            w.dir(sib)
        return relpath(sib, cwd) + b"/../" + name, c
    if c == "via-link-parent":
        lp = R + b"/lnk-to-parent"
        w.link(lp, d)
        return lp + b"/" + name, c
    return rel, "rel"


def gen_put_world(rng, profile="mixed"):
    w = W()
    uid = rng.choice([0, 1000, 1000, 65534])
    home = w.dir(R + b"/home/u")
    vols = volume_layout(rng, w, uid, profile)
    env = {"HOME": home}
    x = rng.random()
    if x < 0.15:
        env["XDG_DATA_HOME"] = home + b"/xdg"
    elif x < 0.22:
        env["XDG_DATA_HOME"] = b""
    elif x < 0.30 and len(vols) > 1:
        env["XDG_DATA_HOME"] = rng.choice(vols[1:]) + b"/xdg"
    if rng.random() < 0.05:
        del env["HOME"]
    opts = {}
    m = rng.random()
    if m < 0.15:
        opts["mode"] = "force"
    elif m < 0.30:
        opts["mode"] = "interactive"
    if rng.random() < 0.12:
        td = rng.choice([R + b"/custom-trash", rng.choice(vols) + b"/ct", b"rel-trash"])
        opts["trashDir"] = td
    if rng.random() < 0.2:
        opts["homeFallback"] = True
    if rng.random() < 0.5 and opts.get("homeFallback"):
        env["TRASH_ENABLE_HOME_FALLBACK"] = b"1"
    elif rng.random() < 0.05:
        env["TRASH_ENABLE_HOME_FALLBACK"] = rng.choice([b"1", b"0", b"yes"])
    # where the entries live
    dirs = [home, home + b"/work", R + b"/data"] + [v + b"/stuff" for v in vols[1:]] + [v for v in vols[1:]]
    names = list(NAMES)
    rng.shuffle(names)
    nargs = rng.choice([1, 1, 1, 2, 2, 3, 4])
    args, meta = [], []
    cwd = rng.choice([home, home, R, rng.choice(dirs)])
    if cwd not in w.nodes:
        w.dir(cwd)
    for i in range(nargs):
        r = rng.random()
        d = rng.choice(dirs)
        if d not in w.nodes:
            w.dir(d)
        name = names[i]
        if r < 0.08:
            args.append(rng.choice([b".", b"..", b"./", b"../", b"work/.", b"work/..", b"work/../", b"./."]))
            w.dir(home + b"/work")
            meta.append({"class": "dot"})
            continue
        if r < 0.16:
            args.append(rng.choice([b"missing", d + b"/missing", b"missing/", b"work/missing/x"]))
            meta.append({"class": "missing"})
            continue
        if r < 0.20 and len(vols) > 1:
            mp = rng.choice(vols[1:])
            w.file(mp + b"/on-volume", b"v")
            args.append(rng.choice([mp, mp + b"/", relpath(mp, cwd)]))
            meta.append({"class": "mountpoint"})
            continue
        kind = make_entry(rng, w, d, name)
        s, sp = spell(rng, w, d + b"/" + name, cwd, kind)
        args.append(s)
        meta.append({"class": "entry", "kind": kind, "spelling": sp, "entry": d + b"/" + name})
    # arguments must designate unrelated entries: drop a mount-point argument when another entry lives below it
    keep = []
    for a, mt in zip(args, meta):
        if mt["class"] == "mountpoint":
            mp = os.path.normpath(a if a.startswith(b"/") else os.path.join(cwd, a))
            if any(o.get("entry", b"").startswith(mp + b"/") for o in meta) or cwd.startswith(mp):
                continue
        keep.append((a, mt))
    if not keep:
        keep = [(b"missing", {"class": "missing"})]
    args, meta = [k[0] for k in keep], [k[1] for k in keep]
    nargs = len(args)
    # pre-existing content in the candidate trash dirs (collisions included)
    for tdir in {home + b"/.local/share/Trash"} | {v + b"/" + uid_dir(uid) for v in vols}:
        if rng.random() < 0.3 and (tdir not in w.nodes or w.nodes[tdir]["k"] == "d"):
            parent = os.path.dirname(tdir)
            if parent in w.nodes and w.nodes[parent]["k"] != "d":
                continue
            w.dir(tdir, 0o700)
            w.dir(tdir + b"/files", 0o700)
            w.dir(tdir + b"/info", 0o700)
            populate_trash(rng, w, tdir, names[:nargs], rng.randint(1, 4))
    stdin = None
    if opts.get("mode") == "interactive":
        replies = [rng.choice([b"y", b"Y", b"yes", b"n", b"", b"x", b"N", b" y"]) for _ in range(rng.randint(0, nargs))]
        stdin = b"".join(r + b"\n" for r in replies)
    world = w.world(env=env, uid=uid, cwd=cwd, cmd="put", args=args, opts=opts, argv=put_argv(opts, args),
                    stdin=stdin, randints=[rng.randint(0, 65535) for _ in range(3)], meta=meta)
    return world
