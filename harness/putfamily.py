"""The trash-put family of checks (C01, C04, C05, C16, C18 and parts of C07/C17) share one
world generator, one evaluation (putcheck.evaluate) and this driver; each property selects its
generator profile, which oracle verdicts are its violations, and its corpus."""
import json
import os

from . import putcheck
from .core import Check, audit, VERIF
from .runner import driver, jsonable, run_tasks, task_rng, unjsonable
from .worldgen import gen_put_world


def world_summary(world):
    return {"args": [repr(a) for a in world["args"]], "opts": {k: (repr(v) if isinstance(v, bytes) else v)
                                                               for k, v in world.get("opts", {}).items()},
            "cwd": repr(world["cwd"]), "mounts": [repr(m) for m in world["mounts"]],
            "env": {k: repr(v) for k, v in world.get("env", {}).items()}, "nodes": len(world["nodes"])}


def world_tags(world):
    tags = []
    for m in world.get("meta", []):
        tags.append("arg:" + m["class"])
        if "kind" in m:
            tags.append("kind:" + m["kind"])
        if "spelling" in m:
            tags.append("spelling:" + m["spelling"])
    o = world.get("opts", {})
    tags.append("mode:" + o.get("mode", "unspecified"))
    if o.get("trashDir") is not None:
        tags.append("opt:trash-dir")
    if o.get("homeFallback"):
        tags.append("opt:home-fallback")
    tags.append("volumes:%d" % len(world["mounts"]))
    return tags


def signature(world, oracle, verdict):
    sp = sorted({m.get("spelling") for m in world.get("meta", []) if m.get("spelling")})
    return {"oracle": oracle, "verdict": verdict.split(" ")[0],
            "symlink_dotdot": "symlink-dotdot" in sp,
            "classes": sorted({m["class"] for m in world.get("meta", [])})}


def eval_task(task):
    pid, seed, i, cfg = task["pid"], task["seed"], task["i"], task["cfg"]
    if "world" in task:
        world = task["world"]
    else:
        world = gen_put_world(task_rng(pid, seed, i), cfg.get("profile", "mixed"), focus=cfg.get("focus"))
        if task.get("force_verbose"):
            from .model import put_argv
            world["opts"] = dict(world["opts"], verbose=task["force_verbose"])
            world["argv"] = put_argv(world["opts"], world["args"])
    r = putcheck.evaluate(world, driver(), oracles=cfg["oracles"], want_states=cfg.get("states", False), plan=task.get("plan"))
    if task.get("plan", {}) and task["plan"].get("stderr_fault"):
        r["mismatch"] = []          # (the model has no failing stderr: the oracle alone judges these runs)
        r["oracle"] = {k_: v_ for k_, v_ in r["oracle"].items() if k_ in ("C01", "C04")}
    out = {"key": (tuple(world["args"]), repr(sorted(world.get("opts", {}).items())), len(world["nodes"]), world["cwd"],
                   tuple(world["mounts"])),
           "tags": world_tags(world) + r["tags"], "summary": world_summary(world),
           "nontrivial": bool(r["trace"]) or bool(r["stderr"]),
           "mismatch": r["mismatch"], "bad": [], "n_states": r.get("n_states", 0)}
    for name, v in r["oracle"].items():
        out["tags"].append("oracle:%s:%s" % (name, "ok" if v["ok"] else v["verdict"]))
        if not v["ok"]:
            out["bad"].append({"oracle": name, "verdict": v["verdict"], "sig": signature(world, name, v["verdict"])})
    if r["mismatch"] or out["bad"]:
        out["world"] = jsonable({k: v for k, v in world.items()})
        out["stderr"] = repr(r["stderr"][-1500:])
        out["model_outcomes"] = [(repr(a), o) for a, o in r["model_outcomes"]]
    return out


def run_family(pid, tier, seed, cfg, n_quick, n_thorough, level_note, rule, theorems_component="Model.Put"):
    ck = Check(pid, tier, seed)
    info = audit(pid)
    n = n_quick if tier == "quick" else n_thorough
    tasks = []
    corpus = os.path.join(VERIF, "corpus", pid)
    if os.path.isdir(corpus):
        for f in sorted(os.listdir(corpus)):
            w = unjsonable(json.load(open(os.path.join(corpus, f))))
            tasks.append({"pid": pid, "seed": seed, "i": -1, "cfg": cfg, "world": w.get("world", w)})
    tasks += [{"pid": pid, "seed": seed, "i": i, "cfg": cfg} for i in range(n)]
    results = run_tasks(eval_task, tasks)
    absorb(ck, pid, results, cfg, theorems_component)
    search_failing_input(ck, pid, seed, cfg, n, theorems_component)
    return ck.finish(info, level_note, rule)


def search_failing_input(ck, pid, seed, cfg, n, component):
    """DESIGN §5: the correspondence broke but no oracle failed on the worlds of this run — look
    further for an input on which the property itself fails on the implementation (more seeded
    worlds, oracle evaluated on each) before reporting no-failing-input-found"""
    if not ck.disagreements or ck.violations:
        return
    before = len(ck.disagreements)
    extra = run_tasks(eval_task, [{"pid": pid, "seed": seed + 7919, "i": i, "cfg": cfg} for i in range(min(4 * n, 3000))])
    absorb(ck, pid, extra, cfg, component)
    ck.extra["failing_input_search"] = {"extra_worlds": len(extra), "found": len(ck.violations),
                                        "disagreements_before": before, "disagreements_after": len(ck.disagreements)}


def absorb(ck, pid, results, cfg, component):
    from .lean import MachineryError
    for r in results:
        if "machinery" in r:
            raise MachineryError(r["machinery"])
        ck.case(r["key"], nontrivial=r["nontrivial"], tags=r["tags"], sample=r["summary"])
        ck.traces += 1
        ck.extra["crash_states_checked"] = ck.extra.get("crash_states_checked", 0) + r.get("n_states", 0)
        for m in r["mismatch"]:
            ck.disagreement("%s vs trashcli.put (%s)" % (component, m["what"]),
                            {"world": r.get("world"), "difference": m, "stderr": r.get("stderr"),
                             "model_outcomes": r.get("model_outcomes")})
        for b in r["bad"]:
            if b["oracle"] in cfg["violations"]:
                ck.violation(b["verdict"], b["sig"], {"world": r.get("world"), "oracle": b["oracle"], "verdict": b["verdict"],
                                                      "stderr": r.get("stderr")})


def replay_family(pid, path, cfg):
    obj = unjsonable(json.load(open(path)))
    worlds = []
    if "replay" in obj and isinstance(obj["replay"], dict) and "world" in obj["replay"]:
        worlds.append(obj["replay"]["world"])
    for c in obj.get("disagreeing_cases", []):
        if c and c.get("world"):
            worlds.append(c["world"])
    rc = 0
    for w in worlds:
        r = eval_task({"pid": pid, "seed": 0, "i": -1, "cfg": cfg, "world": w})
        print(json.dumps({"mismatch": r["mismatch"], "bad": r["bad"], "summary": r["summary"]}, indent=1, default=repr))
        if r["mismatch"] or [b for b in r["bad"] if b["oracle"] in cfg["violations"]]:
            print("VIOLATION property=%s replay=%s" % (pid, path))
            rc = 1
    return rc
