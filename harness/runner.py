"""Process-pool runner for world-level checks: every worker owns one Lean driver."""
import multiprocessing
import os
import random
import traceback

from .lean import Driver, MachineryError

_drv = None
_drv_pid = None


def driver():
    """one Lean driver per process (a forked worker must not share its parent's pipe)"""
    global _drv, _drv_pid
    if _drv is None or _drv_pid != os.getpid():
        _drv = Driver()
        _drv_pid = os.getpid()
    return _drv


def _call(args):
    fn, task = args
    try:
        return fn(task)
    except MachineryError as e:
        return {"machinery": str(e)}
    except Exception:
        return {"machinery": traceback.format_exc()[-3000:]}


def run_tasks(fn, tasks, procs=None):
    """apply `fn(task) -> dict` to every task; results in task order"""
    procs = procs or max(2, min(14, (os.cpu_count() or 4) - 2))
    tasks = list(tasks)
    if len(tasks) <= 2:
        return [_call((fn, t)) for t in tasks]
    ctx = multiprocessing.get_context("fork")
    with ctx.Pool(procs) as pool:
        out = pool.map(_call, [(fn, t) for t in tasks], chunksize=max(1, len(tasks) // (procs * 8)))
    return out


def task_rng(pid, seed, i):
    return random.Random("%s/%d/%d" % (pid, seed, i))


def jsonable(x):
    """bytes -> {'hex': ...} recursively, for replay files"""
    if isinstance(x, bytes):
        return {"hex": x.hex()}
    if isinstance(x, dict):
        return {k: jsonable(v) for k, v in x.items()}
    if isinstance(x, (list, tuple)):
        return [jsonable(v) for v in x]
    return x


def unjsonable(x):
    if isinstance(x, dict):
        if set(x.keys()) == {"hex"}:
            return bytes.fromhex(x["hex"])
        return {k: unjsonable(v) for k, v in x.items()}
    if isinstance(x, list):
        return [unjsonable(v) for v in x]
    return x
