"""Shared evaluation of one trash-put world: implementation run, model run, correspondence,
Spec oracles (C01, C04, C05, C07, C08, C16, C18).  Facts the oracles need about the world are
computed here with the real kernel on the freshly built sandbox, never by the code under test."""
import os
import re
import stat

from .lean import hx, unhx
from .model import (canon_dates, dedup, diff_states, put_request, rows_to_state, snap_to_state, snapshot_rows)
from .sandbox import MODEL_ROOT, run_world


def _real(sb, model_path):
    return sb.to_real(model_path)


def _model(sb, real_path):
    return sb.to_model(real_path)


def designated(sb, world, arg):
    """canonical (model) location of the entry an argument designates, or None (DESIGN §6.0)"""
    a = arg.rstrip(b"/")
    if a == b"" or os.path.basename(a) in (b".", b".."):
        return None
    cwd = _real(sb, world["cwd"])
    p = _real(sb, a) if a.startswith(b"/") else os.path.join(cwd, _real(sb, a))
    parent = os.path.realpath(os.path.dirname(p))
    e = os.path.join(parent, os.path.basename(p))
    if not os.path.lexists(e):
        return None
    return _model(sb, e)


def spec_home_trash(env):
    x = env.get("XDG_DATA_HOME")
    if x:
        return x + b"/Trash"
    if "HOME" in env:
        return env["HOME"] + b"/.local/share/Trash"
    return None


def dev_of(sb, world, real):
    best = b"/"
    for m in [sb.rootb] + [_real(sb, x) for x in world["mounts"]]:
        if (real == m or real.startswith(m + b"/")) and len(m) > len(best):
            best = m
    return best


def blocked_by_dangling(real_str):
    """the kernel cannot `mkdir -p` this path string: its first prefix that does not exist when links are followed is
    itself there - a symbolic link that does not resolve"""
    parts = real_str.split(b"/")
    for k in range(1, len(parts) + 1):
        if parts[k - 1] == b"":
            continue
        pre = b"/".join(parts[:k]) or b"/"
        if not os.path.exists(pre):
            return os.path.lexists(pre)
    return False


def trash_dirs(sb, world):
    """every trash directory in scope: [(canonical model dir, base or None, kind, volume, parentOk)]"""
    uid = world.get("uid", 0)
    out = []
    opts = world.get("opts", {})
    cwd = _real(sb, world["cwd"])

    def raw(model_str):
        r = _real(sb, model_str)
        if not r.startswith(b"/"):
            r = os.path.join(cwd, r)
        return r

    def canon(model_str):
        return os.path.realpath(raw(model_str))

    def blocked(model_str):
        return any(blocked_by_dangling(raw(model_str) + suf) for suf in (b"", b"/files", b"/info"))

    h = spec_home_trash(world.get("env", {}))
    if h is not None:
        out.append({"dir": canon(h), "base": None, "kind": "home", "str": h, "parentOk": True, "blocked": blocked(h)})
    for m in world["mounts"]:
        mr = _real(sb, m)
        t = mr + b"/.Trash"
        ok = False
        try:
            st = os.lstat(t)
            ok = stat.S_ISDIR(st.st_mode) and bool(st.st_mode & stat.S_ISVTX)
        except OSError:
            pass
        out.append({"dir": canon(m + b"/.Trash/%d" % uid), "base": m, "kind": "top", "vol": mr, "parentOk": ok,
                    "insecure": os.path.lexists(t) and not ok, "blocked": blocked(m + b"/.Trash/%d" % uid)})
        out.append({"dir": canon(m + b"/.Trash-%d" % uid), "base": m, "kind": "alt", "vol": mr, "parentOk": True,
                    "blocked": blocked(m + b"/.Trash-%d" % uid)})
    if opts.get("trashDir"):
        c = canon(opts["trashDir"])
        # Paths in a --trash-dir are recorded relative to the volume of the directory AS SPELLED (textual ascent of the
        # argument to a mount point: what trash-put, trash-list and trash-restore agree on); the spec is silent here
        out.append({"dir": c, "base": _model(sb, dev_of(sb, world, os.path.normpath(raw(opts["trashDir"])))), "kind": "custom", "parentOk": True,
                    "blocked": blocked(opts["trashDir"])})
    return out


def put_facts(sb, world):
    tds = trash_dirs(sb, world)
    args = world["args"]
    items = []
    for a in args:
        e = designated(sb, world, a)
        it = {"arg": a, "entry": e}
        if e is not None:
            re_ = _real(sb, e)
            st = os.lstat(re_)
            it["kind"] = "link" if stat.S_ISLNK(st.st_mode) else ("dir" if stat.S_ISDIR(st.st_mode) else "file")
            it["dev"] = _model(sb, dev_of(sb, world, os.path.dirname(re_)))
            it["ismount"] = re_ in [_real(sb, m) for m in world["mounts"]]
            if it["kind"] == "link":
                tgt = os.path.realpath(re_)
                it["target"] = _model(sb, tgt) if os.path.lexists(tgt) and tgt != re_ else None
        # what the kernel says about the argument exactly as spelled (for legit-skip classification)
        ra = _real(sb, a)
        full = ra if ra.startswith(b"/") else os.path.join(_real(sb, world["cwd"]), ra)
        it["lexists"] = os.path.lexists(full) if a != b"" else False
        it["accessible"] = os.path.exists(full) if a != b"" else False
        # a symbolic link that does not lead to a directory, written with trailing slashes: lstat("x/") follows x and wants
        # a directory there, so for the kernel the spelling names nothing - for the property it still names the link
        bare = full.rstrip(b"/")
        it["slash_link"] = _model(sb, os.path.join(os.path.realpath(os.path.dirname(bare)), os.path.basename(bare))) \
            if (a.endswith(b"/") and bare and os.path.islink(bare) and not os.path.lexists(full)) else None
        items.append(it)
    facts = {"items": items,
             "dirs": [{"dir": _model(sb, d["dir"]), "base": d["base"], "kind": d["kind"], "parentOk": d["parentOk"],
                       "files": _model(sb, os.path.realpath(d["dir"] + b"/files")),
                       "info": _model(sb, os.path.realpath(d["dir"] + b"/info")),
                       "vol": _model(sb, d["vol"]) if "vol" in d else None,
                       "insecure": d.get("insecure", False), "blocked": bool(d.get("blocked"))} for d in tds]}
    return facts


def legit_skips(world, facts):
    """per argument: is 'not trashed' legitimate (missing under -f, declined under -i)?"""
    mode = world.get("opts", {}).get("mode", "unspecified")
    replies = (world.get("stdin") or b"").split(b"\n")[:-1]
    out = []
    ri = 0
    for it in facts["items"]:
        a = it["arg"]
        dot = os.path.basename(a.rstrip(b"/")) in (b".", b"..")
        if dot:
            out.append(False)
        elif not it["lexists"]:
            out.append(mode == "force")
        elif mode == "interactive" and it["accessible"]:
            if ri < len(replies):
                r = replies[ri]
                ri += 1
                out.append(not r[:1].lower() == b"y")
            else:
                out.append(None)      # EOF: the run aborts here
        else:
            out.append(False)
    return out


def named_args(world, stderr):
    """arguments named by a diagnostic"""
    out = []
    for a in world["args"]:
        out.append((b"'" + a + b"'") in stderr or (a != b"" and ((b" " + a + b" ") in stderr or (b" " + a + b"\n") in stderr)))
    return out


def evaluate(world, drv, plan=None, model_faults=None, oracles=("C01", "C04", "C16", "C18"), want_states=False):
    """run implementation and model on one world; returns a result dict"""
    plan = dict(plan or {})
    if want_states:
        plan["states"] = True
    obs = run_world(world, plan, facts=put_facts)
    facts = obs["facts"]
    res = {"mismatch": [], "oracle": {}, "tags": [], "obs_exit": obs["exit"], "exc": obs.get("exc")}
    if obs.get("escaped"):
        res["mismatch"].append({"what": "operation outside the sandbox", "escapes": obs["escapes"]})
    before = snap_to_state(obs["before"])
    impl_after_raw = snap_to_state(obs["after"])
    impl_after, dates = canon_dates(impl_after_raw, before)
    res["dates"] = dates
    res["window"] = (obs.get("t0"), obs.get("t1"))
    # ---- model -------------------------------------------------------------------------------
    m = drv.ask(put_request(world, states=want_states, faults=model_faults))
    model_after = rows_to_state(m["final"])
    res["model_outcomes"] = [(unhx(x["arg"]), x["outcome"]) for x in m["outcomes"]]
    for _a, o in res["model_outcomes"]:
        res["tags"].append("outcome:" + o["o"])
    if impl_after != model_after:
        res["mismatch"].append({"what": "final state", "diff": diff_states(impl_after, model_after)})
    iexit = obs["exit"]
    if iexit != m["exit"]:
        res["mismatch"].append({"what": "exit status", "impl": iexit, "model": m["exit"], "exc": obs.get("exc"),
                                "tb": obs.get("tb")})
    if (obs.get("exc") or None) != (m.get("crash") or None) and not (obs.get("exc") and m.get("crash")):
        res["mismatch"].append({"what": "crash", "impl": obs.get("exc"), "model": m.get("crash"), "tb": obs.get("tb")})
    named = named_args(world, obs["stderr"])
    if world.get("opts", {}).get("verbose", 0) == 0:
        mnamed = set(unhx(x[2]) for x in m["outs"] if x[1] == "cannot-trash")
        inamed = set(a for a, n in zip(world["args"], named) if n and b"cannot trash" in obs["stderr"])
        if mnamed != inamed:
            res["mismatch"].append({"what": "diagnostics", "impl": sorted(map(repr, inamed)), "model": sorted(map(repr, mnamed)),
                                    "stderr": repr(obs["stderr"][-800:])})
    if want_states:
        ist = dedup([canon_dates(snap_to_state(s), before)[0] for s in obs["states"]])
        mst = dedup([rows_to_state(s) for s in m["states"]])
        res["n_states"] = len(ist)
        if ist != mst:
            k = next((i for i, (a, c) in enumerate(zip(ist, mst)) if a != c), min(len(ist), len(mst)))
            res["mismatch"].append({"what": "crash-state sequence", "impl_len": len(ist), "model_len": len(mst),
                                    "first_difference": k,
                                    "diff": diff_states(ist[k], mst[k]) if k < len(ist) and k < len(mst) else None})
        res["impl_states"] = [canon_dates(snap_to_state(s), before)[0] for s in obs["states"]]
    # ---- oracles on the implementation's observation ---------------------------------------------
    mounts = [hx(x) for x in world["mounts"]]
    brows = snapshot_rows(obs["before"])
    arows = snapshot_rows(obs["after"])
    dirs = [hx(d["dir"]) for d in facts["dirs"]]
    skips = legit_skips(world, facts)
    reported = [bool(n) and iexit != 0 for n in named]
    if plan and plan.get("stderr_fault"):
        # the program could not report anything: the final state alone is judged (fully trashed or untouched)
        reported = [False for _ in named]
        res["tags"].append("stderr-fault")
    elif obs.get("exc") not in (None, "KeyboardInterrupt", "Crash") and not m.get("crash") and iexit not in (0, None):
        # the run died of an exception nobody caught (a traceback and a failure status): that is a failure report for every
        # argument, whatever the traceback names
        reported = [True for _ in named]
        res["tags"].append("uncaught-exception")
    res["facts"] = facts
    res["skips"] = skips
    base = {"op": "oracle", "before": brows, "after": arows, "mounts": mounts}
    if "C01" in oracles:
        r = drv.ask(dict(base, prop="C01", dirs=dirs,
                         items=[{"entry": hx(it["entry"]) if it["entry"] is not None else None, "reported": rep}
                                for it, rep in zip(facts["items"], reported)]))
        res["oracle"]["C01"] = r
    if "C04" in oracles:
        # every directory that looks like a trash directory (holds files/ and info/), not only the candidates of this run:
        # what was trashed anywhere before stays whole
        look = sorted({hx(p_) for p_, v_ in before.items() if v_[0] == "d" and before.get(p_ + b"/files", ("",))[0] == "d"
                       and before.get(p_ + b"/info", ("",))[0] == "d"} | set(dirs))
        res["oracle"]["C04"] = drv.ask(dict(base, prop="C04", dirs=look))
    if "C16" in oracles and obs.get("exc") is None and isinstance(iexit, int):
        seen = set()
        items = []
        for it, sk, nm in zip(facts["items"], skips, named):
            e = it["entry"]
            if e is not None and e in seen:
                e = None          # a duplicate must fail as non-existent the second time
            if e is not None:
                seen.add(e)
            items.append({"entry": hx(e) if e is not None else None, "legitSkip": bool(sk), "named": bool(nm)})
        res["oracle"]["C16"] = drv.ask(dict(base, prop="C16", dirs=dirs, items=items, exit=iexit))
    if "C16" in oracles and obs.get("exc") not in (None, "KeyboardInterrupt", "Crash") and not m.get("crash") and not (plan and (plan.get("stderr_fault") or plan.get("read_faults"))):      # (under an injected probe fault a traceback with a failure status is a crude, but honest, report: C17 judges the state)
        # a traceback names no argument and tells nothing true about the others
        res["oracle"]["C16"] = {"ok": False, "verdict": "C16.uncaughtException %s (exit %r)" % (obs.get("exc"), iexit)}
    if "C18" in oracles:
        links = [it for it in facts["items"] if it.get("kind") == "link"]

        def frame_target(it):
            """the link's target, as far as the run has no other business below it: another argument or a trash directory
            in scope inside the target (a link to the top of a volume) legitimately changes its subtree"""
            t = it.get("target")
            if not t:
                return None
            below = [o["entry"] for o in facts["items"] if o is not it and o.get("entry")] + [d["dir"] for d in facts["dirs"]]
            if any(x == t or x.startswith(t.rstrip(b"/") + b"/") for x in below):
                return None
            if any(o is not it and o.get("entry") and (t == o["entry"] or t.startswith(o["entry"].rstrip(b"/") + b"/")) for o in facts["items"]):
                return None          # the target lies inside another argument (a directory trashed in the same run)
            return t
        if links:
            r = drv.ask(dict(base, prop="C18",
                             dirsWithBase=[{"dir": hx(d["dir"]), "base": hx(d["base"]) if d["base"] is not None else None}
                                           for d in facts["dirs"]],
                             items=[{"link": hx(it["entry"]), "target": hx(frame_target(it)) if frame_target(it) else None,
                                     "expectAbs": hx(it["entry"])} for it in links]))
            res["oracle"]["C18"] = r
            res["tags"].append("c18:links")
    if "C18" in oracles and obs.get("exc") is None:
        st_after = snap_to_state(obs["after"])
        kept = [it["slash_link"] for it in facts["items"] if it.get("slash_link") and st_after.get(it["slash_link"], ("",))[0] == "l"]
        if kept and world.get("opts", {}).get("mode") != "interactive":
            res["oracle"]["C18-slash"] = {"ok": False, "verdict": "C18.linkWithTrailingSlashNotTrashed %r" % kept[:2]}
            res["tags"].append("c18:slash-link-refused")
    if "C05" in oracles and want_states:
        entries = [hx(it["entry"]) for it in facts["items"] if it["entry"] is not None]
        bad = None
        for i, s in enumerate(obs["states"]):
            r = drv.ask(dict(base, prop="C05", after=snapshot_rows(s), dirs=dirs, entries=entries))
            if not r["ok"]:
                bad = dict(r, index=i)
                break
        res["oracle"]["C05"] = bad or {"ok": True, "verdict": "ok", "states": len(obs["states"])}
    if ("C07" in oracles or "C18" in oracles) and obs.get("exc") is None \
            and world.get("opts", {}).get("mode") != "interactive" \
            and not any(m.get("spelling") == "symlink-dotdot" for m in world.get("meta", [])):
        # per argument: the trash directory the spec prescribes (C07.expected on the before-state) against the one that
        # gained the entry.  With several arguments an entry is recognised by the name of its new payload, so the base
        # names of the eligible arguments must tell them apart.
        opts = world.get("opts", {})
        env = world.get("env", {})
        fb = bool(opts.get("homeFallback")) and env.get("TRASH_ENABLE_HOME_FALLBACK") == b"1"
        elig = [it for it in facts["items"] if it["entry"] is not None and not it.get("ismount") and it["lexists"]
                and it["arg"] != b""]
        names = [os.path.basename(it["entry"]) for it in elig]
        single = len(facts["items"]) == 1
        distinct = len(set(names)) == len(names) and not any(
            a != c and re.fullmatch(re.escape(a) + rb"_\d+", c) for a in names for c in names)
        after_state = snap_to_state(obs["after"])

        def cand(d, kind):
            return {"dir": hx(d["dir"]), "files": hx(d["files"]), "info": hx(d["info"]), "kind": kind, "parentOk": bool(d["parentOk"]),
                    "blocked": bool(d.get("blocked"))}

        def cands_for(it):
            if opts.get("trashDir"):
                return [cand(d, "custom") for d in facts["dirs"] if d["kind"] == "custom"]
            homes = [d for d in facts["dirs"] if d["kind"] == "home"]
            cs = [cand(d, "home") for d in homes]
            cs += [cand(d, d["kind"]) for d in facts["dirs"] if d["kind"] in ("top", "alt") and d["vol"] == it["dev"]]
            cs.sort(key=lambda c: {"home": 0, "top": 1, "alt": 2}[c["kind"]])
            if opts.get("homeFallback"):
                cs += [cand(d, "fallback") for d in homes]
            return cs

        def got_for(it):
            bn = os.path.basename(it["entry"])
            got = None
            for d in facts["dirs"]:
                fdir = d["files"]
                for p in after_state:
                    if p.startswith(fdir + b"/") and b"/" not in p[len(fdir) + 1:] and p not in before:
                        nm = p[len(fdir) + 1:]
                        mm = re.fullmatch(rb"(?s)(.*)_(\d+)", nm)
                        shortened = bool(mm) and len(bn) + len(b".trashinfo") > 255 and \
                            mm.group(1) == bn[:max(len(bn) - len(b"_" + mm.group(2) + b".trashinfo"), 0)]
                        if single or nm == bn or re.fullmatch(re.escape(bn) + rb"_\d+", nm) or shortened:
                            got = d["dir"]
            return got
        if elig and (single or distinct) and (single or len(elig) == len([x for x in facts["items"] if x["entry"] is not None])):
            verdict, gots = None, []
            for it in elig:
                got = got_for(it)
                gots.append(got)
                r = drv.ask(dict(base, prop="C07", dev=hx(it["dev"]), fallbackEnabled=fb, cands=cands_for(it),
                                 got=hx(got) if got is not None else None))
                if not r["ok"] and verdict is None:
                    verdict = dict(r, verdict=("%s (argument %r)" % (r["verdict"], it["arg"])) if not single else r["verdict"])
                if "C18" in oracles and it.get("kind") == "link" and not r["ok"] and "notTrashedButShould" in r["verdict"]:
                    res["oracle"]["C18-link-not-trashed"] = {"ok": False, "verdict": "C18.linkNotTrashedAlthoughATrashDirIsUsable"}
            if "C07" in oracles:
                r = verdict or {"ok": True, "verdict": "C07.Verdict.ok"}
                if single:
                    # a silent cross-device copy shows as data-copying calls outside info/
                    copied = any(rec[0] in ("createTrunc", "symlink") and not bytes.fromhex(rec[1][0]).endswith(b".trashinfo")
                                 for rec in obs["trace"] if rec[2] == "ok")
                    if r["ok"] and copied and not fb:
                        r = {"ok": False, "verdict": "C07.silent-copy"}
                res["oracle"]["C07"] = r
                res["tags"].append("c07:args:%d" % len(elig))
                for got in gots:
                    res["tags"].append("c07:got:" + next((d["kind"] for d in facts["dirs"] if d["dir"] == got), "none"))
    if "C03w" in oracles:
        # what the real trash-put wrote: every new .trashinfo is conformant (Lean predicate C03.Holds on its bytes and
        # the location its Path decodes to) and its DeletionDate is the time of trashing of THAT entry: under the
        # sandbox clock (one hour per mutating call) a reading taken after the previous entry was moved and not after
        # this info file was created
        import datetime as _dt
        from urllib.parse import unquote_to_bytes
        from .sandbox import CLOCK_T0, CLOCK_STEP
        problems = []
        listed_back = []
        trace = obs["trace"]
        moves = [i for i, rec in enumerate(trace) if rec[0] == "rename" and rec[2] == "ok"]
        for pth, datestr in dates:
            content = impl_after_raw[pth][1]
            pm = re.search(rb"(?m)^Path=(.*)$", content)
            loc = unquote_to_bytes(pm.group(1)) if pm else b""
            if not drv.ask({"op": "c03holds", "content": hx(content), "loc": hx(loc)})["r"]:
                problems.append("not conformant: %r" % content[:200])
                continue
            # ... and it decodes back to the exact location of the entry it was written for (parent directory resolved,
            # the entry itself not followed; relative to $topdir in a volume trash directory)
            tdir_ = pth.rsplit(b"/info/", 1)[0]
            stem_ = pth.rsplit(b"/", 1)[1][:-len(b".trashinfo")]
            owners = [it for it in facts["items"] if it.get("entry") and not any(
                m.get("spelling") == "symlink-dotdot" for m in world.get("meta", []))]
            cands_ = [it for it in owners if os.path.basename(it["entry"]) == stem_ or
                      re.fullmatch(re.escape(os.path.basename(it["entry"])) + rb"_\d+", stem_)]
            bases_ = [d["base"] for d in facts["dirs"] if d["dir"] == tdir_]
            if len(cands_) == 1 and len(bases_) == 1 and len(set(os.path.basename(it["entry"]) for it in owners)) == len(owners):
                ent, base_ = cands_[0]["entry"], bases_[0]
                want_ = ent
                if base_ is not None and ent.startswith(base_.rstrip(b"/") + b"/"):
                    want_ = ent[len(base_.rstrip(b"/")) + 1:]
                if loc != want_:
                    problems.append("Path of %r decodes to %r, the entry trashed is %r (recorded form %r)" % (pth, loc, ent, want_))
                elif any(d["dir"] == tdir_ and d["kind"] in ("home", "top", "alt") for d in facts["dirs"]) and b"\n" not in ent:
                    listed_back.append((datestr.replace(b"T", b" ") + b" " + ent, pth))
            if world.get("opts", {}).get("realPutClock"):
                # the program's own clock: DeletionDate is the LOCAL time (zone of the world's TZ) at which the run happened
                import time as _time
                tz_ = world.get("env", {}).get("TZ")
                old_tz = os.environ.get("TZ")
                try:
                    if tz_ is not None:
                        os.environ["TZ"] = os.fsdecode(tz_)
                    _time.tzset()
                    lo = _dt.datetime(*_time.localtime(obs["t0"] - 1)[:6])
                    hi = _dt.datetime(*_time.localtime(obs["t1"] + 1)[:6])
                finally:
                    if old_tz is None:
                        os.environ.pop("TZ", None)
                    else:
                        os.environ["TZ"] = old_tz
                    _time.tzset()
                try:
                    d = _dt.datetime.strptime(datestr.decode("ascii"), "%Y-%m-%dT%H:%M:%S")
                except ValueError:
                    problems.append("unreadable date %r" % datestr)
                    continue
                if not (lo <= d <= hi):
                    problems.append("DeletionDate %s of %r is not the local time of trashing (zone %r: between %s and %s)"
                                    % (datestr.decode(), pth, tz_, lo, hi))
                continue
            created = [i for i, rec in enumerate(trace) if rec[0] == "createExcl" and rec[2] == "ok" and rec[1] and
                       bytes.fromhex(rec[1][0]) == pth]
            if not created:
                continue
            idx = created[-1]
            prev = max([i for i in moves if i < idx], default=-1)
            try:
                d = _dt.datetime.strptime(datestr.decode("ascii"), "%Y-%m-%dT%H:%M:%S")
            except ValueError:
                problems.append("unreadable date %r" % datestr)
                continue
            k = (d - CLOCK_T0).total_seconds() / CLOCK_STEP
            if not (prev < k <= idx) or k != int(k):
                problems.append("DeletionDate %s of %r is clock reading %s; the entry was trashed between calls %d and %d"
                                % (datestr.decode(), pth, k, prev + 1, idx))
        if listed_back and not problems and obs.get("exc") is None:
            # ... and read back by a reader: trash-list, run on the state trash-put left, shows every new entry under the
            # path it was trashed from (several volumes' trash directories are scanned in one run)
            from . import readcheck
            from .model import cmd_argv, world_from_state
            wl = world_from_state(dict(world, cmd="list", opts={}, args=[], stdin=None,
                                       meta={"entries": [], "tdirs": [], "profile": "c03w", "payload_kinds": []}),
                                  snap_to_state(obs["after"]))
            wl["argv"] = cmd_argv(wl)
            rl = readcheck.evaluate(wl, drv, oracles=())
            res["mismatch"] += [dict(m_, what="trash-list after trash-put: " + str(m_.get("what"))) for m_ in rl["mismatch"]]
            lines_ = rl["stdout"].split(b"\n")
            for line_, pth in listed_back:
                if line_ not in lines_:
                    problems.append("trash-list does not show %r for %r: %r" % (line_, pth, rl["stdout"][:300]))
            res["tags"].append("c03w:listed-back")
        res["oracle"]["C03w"] = {"ok": not problems, "verdict": "C03.written-info: " + "; ".join(problems[:2]) if problems else "ok"}
        res["tags"].append("c03w:new-infos:%d" % min(len(dates), 3))
    if "C07" in oracles and want_states:
        # "created on demand, private": a trash directory this run creates is 0700 from its first instant - in every state
        # between two calls, not only in the end (whoever may look meanwhile sees nothing, whatever interrupts leaves it so)
        made = set()
        for d in facts["dirs"]:
            if d["kind"] in ("home", "alt", "custom") or (d["kind"] == "top" and d["parentOk"]):
                for q in (d["dir"], d["files"], d["info"]):
                    if q not in before:
                        made.add(q)
        bad_ = None
        for i_, st_ in enumerate(res.get("impl_states", []) + [snap_to_state(obs["after"])]):
            for q in made:
                v_ = st_.get(q)
                if v_ is not None and v_[0] == "d" and v_[2] != 0o700:
                    bad_ = (i_, q, v_[2])
                    break
            if bad_:
                break
        res["oracle"]["C07-private"] = {"ok": bad_ is None, "verdict": "ok" if bad_ is None else
                                        "C07.createdNotPrivate %r has mode %o in state %d of the run" % (bad_[1], bad_[2], bad_[0])}
    if "C08" in oracles:
        roots = [hx(d["dir"]) for d in facts["dirs"] if d["kind"] == "top" and d.get("insecure")]
        if roots:
            res["oracle"]["C08"] = drv.ask(dict(base, prop="C08", roots=roots, mentions=False))
            res["tags"].append("c08:insecure-top-present")
    res["after_state"] = snap_to_state(obs["after"])
    res["before_state"] = snap_to_state(obs["before"])
    res["stderr"] = obs["stderr"]
    res["trace"] = obs["trace"]
    res["brows"], res["arows"] = brows, arows
    return res
