"""Entry point: ./check Cxx [--tier quick|thorough] [--replay path]"""
import argparse
import importlib
import os
import sys
import traceback

from .lean import MachineryError


def main():
    ap = argparse.ArgumentParser()
    ap.add_argument("pid")
    ap.add_argument("--tier", default=os.environ.get("VERIF_TIER", "quick"), choices=["quick", "thorough"])
    ap.add_argument("--replay", default=None)
    args = ap.parse_args()
    seed = int(os.environ.get("VERIF_SEED", "0"))
    try:
        mod = importlib.import_module("harness.props." + args.pid.lower())
        if args.replay:
            return mod.replay(args.replay)
        os.environ["VERIF_TIER"] = args.tier          # the audit re-checks the compiled proofs independently in the thorough tier
        return mod.run(args.tier, seed)
    except MachineryError as e:
        print("MACHINERY-ERROR %s: %s" % (args.pid, e), file=sys.stderr)
        return 2
    except Exception:
        traceback.print_exc()
        print("MACHINERY-ERROR %s: internal error" % args.pid, file=sys.stderr)
        return 2


if __name__ == "__main__":
    sys.exit(main())
