"""Shared machinery of all checks: bookkeeping, evidence, findings, VIOLATION lines, Lean audit."""
import collections
import hashlib
import json
import os
import random
import re
import subprocess
import sys
import tempfile
import time

from .lean import VERIF, LEAN_DIR, MachineryError, ensure_built

REPO = os.environ.get("VERIF_REPO", "/repo")
# where evidence/ and replays/ are written (tools/seeded_matrix.sh points it at a scratch directory)
OUT = os.environ.get("VERIF_OUT", VERIF)
ALLOWED_AXIOMS = {"propext", "Classical.choice", "Quot.sound"}
FORBIDDEN = re.compile(r"\b(sorry|admit|native_decide|bv_decide|implemented_by|unsafe)\b|^\s*axiom\s|maxHeartbeats\s+0\b",
                       re.M)


def import_repo():
    """Import trashcli from the repo under test and assert where it came from."""
    if sys.path[0] != REPO:
        sys.path.insert(0, REPO)
    import trashcli
    here = os.path.realpath(os.path.dirname(trashcli.__file__))
    want = os.path.realpath(os.path.join(REPO, "trashcli"))
    if here != want:
        raise MachineryError("trashcli imported from %s, expected %s" % (here, want))
    return trashcli


def strip_comments(src):
    src = re.sub(r"/-.*?-/", "", src, flags=re.S)
    src = re.sub(r"--.*", "", src)
    return src


def lean_sources():
    out = []
    for root, _d, files in os.walk(os.path.join(LEAN_DIR)):
        if ".lake" in root:
            continue
        for f in files:
            if f.endswith(".lean") and not (root == LEAN_DIR and f.startswith("audit-tmp-")):   # another run's transient audit file, not part of the library
                out.append(os.path.join(root, f))
    return sorted(out)


def module_closure(roots):
    """project modules reachable from `roots` through `import TrashVerif.…` lines"""
    seen, todo = [], list(roots)
    while todo:
        m = todo.pop()
        if m in seen:
            continue
        f = os.path.join(LEAN_DIR, *m.split(".")) + ".lean"
        if not os.path.exists(f):
            continue
        seen.append(m)
        todo += re.findall(r"^import\s+(TrashVerif\.[A-Za-z0-9_.]+)", open(f).read(), re.M)
    return sorted(seen)


EXTRA_PROPS = {"C04": ["C04Par", "C04Seq"], "C09": ["C09Hist"], "C16": ["C16Indep", "C16Seq"], "C02": ["C02Cmd"], "C05": ["C05Copy", "C05Cmd", "C05Seq"], "C03": ["C03Cmd"], "C14": ["C14Loop"], "C15": ["C05Copy", "C15Loop", "C15Seq"],
               "C10": ["C10Loop", "C10Cmd"], "C12": ["C10Loop", "C12Cmd"], "C08": ["C08Cmd"], "C11": ["C08Cmd", "C11Cmd"], "C13": ["C13Cmd", "C13Order"], "C06": ["C13Cmd"], "C07": ["C07Cmd"], "C01": ["C07Cmd", "C01Seq"],
               "C17": ["C17Single", "C17Seq"], "C18": ["C18Cmd"], "C19": ["C19Cmd"], "C20": ["C19Cmd", "C20Cmd"]}


def audit(pid):
    """Build the Lean project, list the property theorems of Props/<pid>.lean (and of its companion
    files), print their axioms and grep all sources for forbidden constructs."""
    t0 = time.time()
    ensure_built()
    names = []          # (module, theorem)
    for mod in [pid] + EXTRA_PROPS.get(pid, []):
        props_file = os.path.join(LEAN_DIR, "TrashVerif", "Props", mod + ".lean")
        if not os.path.exists(props_file):
            raise MachineryError("no Props file for " + mod)
        src = strip_comments(open(props_file).read())
        # theorems with the namespace they are stated in (a Props file may hold more than one namespace)
        stack = []
        for line in src.split("\n"):
            m = re.match(r"^\s*namespace\s+([A-Za-z0-9_'.]+)", line)
            if m:
                stack.append(m.group(1))
                continue
            m = re.match(r"^\s*end\s+([A-Za-z0-9_'.]+)\s*$", line)
            if m and stack and stack[-1] == m.group(1):
                stack.pop()
                continue
            m = re.match(r"^\s*theorem\s+([A-Za-z0-9_'.]+)", line)
            if m:
                ns = ".".join(stack)
                ns = ns[len("TrashVerif."):] if ns.startswith("TrashVerif.") else ns
                names.append((mod, (ns + "." if ns and ns != mod else "") + m.group(1)))
    if not names:
        raise MachineryError("no theorems in Props/%s.lean" % pid)
    bad_kw = []
    for f in lean_sources():
        s = strip_comments(open(f).read())
        for m in FORBIDDEN.finditer(s):
            bad_kw.append("%s: %s" % (os.path.relpath(f, LEAN_DIR), m.group(0).strip()))
    with tempfile.NamedTemporaryFile("w", prefix="audit-tmp-", suffix=".lean", dir=LEAN_DIR, delete=False) as tf:
        for mod in sorted({m for m, _ in names}):
            tf.write("import TrashVerif.Props.%s\n" % mod)
        for mod, n in names:
            tf.write("#print axioms TrashVerif.%s\n" % (n if "." in n else mod + "." + n))
        tmp = tf.name
    try:
        p = subprocess.run(["lake", "env", "lean", tmp], cwd=LEAN_DIR, stdout=subprocess.PIPE,
                           stderr=subprocess.STDOUT, text=True)
    finally:
        os.unlink(tmp)
    if p.returncode != 0:
        raise MachineryError("axiom audit failed:\n" + p.stdout)
    text = p.stdout.replace("\n  ", " ")
    axioms = {}
    for mod, n in names:
        m = re.search(r"'TrashVerif\.%s' (does not depend on any axioms|depends on axioms: \[([^\]]*)\])"
                      % re.escape(n if "." in n else mod + "." + n), text)
        if not m:
            raise MachineryError("no axiom report for %s.%s in:\n%s" % (mod, n, p.stdout))
        key = n if mod == pid else mod + "." + n
        axioms[key] = [] if m.group(2) is None else [a.strip() for a in m.group(2).split(",") if a.strip()]
    names = list(axioms.keys())
    discharged = [n for n in names if set(axioms[n]) <= ALLOWED_AXIOMS]
    if bad_kw:
        discharged = []
    recheck = None
    if os.environ.get("VERIF_TIER") == "thorough":
        # thorough tier: leanchecker (the toolchain's independent re-checker) replays the compiled Props modules of this
        # property and every project module they import, transitively
        mods = module_closure(["TrashVerif.Props." + m for m in sorted({m for m, _ in [(pid, None)] + [(e, None) for e in EXTRA_PROPS.get(pid, [])]})])
        t1 = time.time()
        pc = subprocess.run(["lake", "env", "leanchecker"] + mods, cwd=LEAN_DIR, stdout=subprocess.PIPE, stderr=subprocess.STDOUT, text=True)
        recheck = {"modules": len(mods), "exit": pc.returncode, "seconds": round(time.time() - t1, 1)}
        if pc.returncode != 0:
            recheck["output"] = pc.stdout[-2000:]
            discharged = []
    return {"theorems": names, "axioms": axioms, "discharged": len(discharged),
            "obligations": len(names), "forbidden_hits": bad_kw, "audit_s": round(time.time() - t0, 2), "leanchecker": recheck,
            "checker_cmd": "cd lean/TrashVerif && lake build TrashVerif && lake env lean <(#print axioms of every theorem in TrashVerif/Props/%s.lean%s)" % (pid, "".join(" and Props/%s.lean" % e for e in EXTRA_PROPS.get(pid, [])))}


def load_findings():
    path = os.path.join(VERIF, "known_findings.json")
    if not os.path.exists(path):
        return []
    return json.load(open(path)).get("known", [])


def sig_matches(sig, rec):
    for k, v in sig.items():
        if isinstance(v, list):
            if rec.get(k) not in v:
                return False
        elif rec.get(k) != v:
            return False
    return True


class Check:
    def __init__(self, pid, tier, seed):
        self.pid, self.tier, self.seed = pid, tier, seed
        self.t0 = time.time()
        self.rng = random.Random((hash(pid) & 0xffff) * 1000003 + seed) if False else random.Random("%s-%d" % (pid, seed))
        self.evals = 0
        self.distinct = set()
        self.samples = []
        self.dist = collections.Counter()
        self.violations = []      # (signature dict, replay dict)
        self.known_hits = collections.OrderedDict()
        self.disagreements = []   # (component, case)
        self.traces = 0
        self.exhaustive = None
        self.notes = []
        self.findings = [f for f in load_findings() if f["property"] == pid]
        self.extra = {}

    # -- bookkeeping -------------------------------------------------------------------------
    def case(self, key, nontrivial=True, tags=(), sample=None):
        """count one evaluated case; `key` identifies it for the distinct count"""
        self.evals += 1
        if nontrivial:
            h = hashlib.sha1(repr(key).encode("utf-8", "backslashreplace")).digest()[:8]
            self.distinct.add(h)
        for t in tags:
            self.dist[t] += 1
        if sample is not None and len(self.samples) < 8 and (self.evals < 4 or self.rng.random() < 0.002):
            self.samples.append(sample)

    def violation(self, clause, sig, replay):
        """an oracle failure on the implementation: concrete violation (unless a known finding)"""
        rec = dict(sig)
        rec["clause"] = clause
        for f in self.findings:
            if sig_matches(f["signature"], rec):
                self.known_hits.setdefault(f["id"], f)
                return
        if len(self.violations) < 20:
            self.violations.append((rec, replay))

    def disagreement(self, component, case):
        if len(self.disagreements) < 50:
            self.disagreements.append((component, case))
        else:
            self.disagreements.append((component, None))

    # -- finish ------------------------------------------------------------------------------
    def finish(self, audit_info, level_note, rule, theorems_resting=None, assumptions=()):
        os.makedirs(os.path.join(OUT, "replays", self.pid), exist_ok=True)
        lines = []
        nviol = 0
        for f in self.known_hits.values():
            lines.append("KNOWN-FINDING: property=%s %s" % (self.pid, f["what"]))
        for rec, replay in self.violations[:5]:
            nviol += 1
            path = self._write_replay({"property": self.pid, "kind": "oracle-failure", "signature": rec,
                                       "replay": replay})
            lines.append("VIOLATION property=%s replay=%s" % (self.pid, path))
        if self.disagreements and not self.violations:
            nviol += 1
            comps = sorted({c for c, _ in self.disagreements})
            path = self._write_replay({
                "property": self.pid, "kind": "correspondence-broken",
                "components": comps,
                "theorems_no_longer_tied_to_code": theorems_resting or audit_info["theorems"],
                "disagreeing_cases": [c for _, c in self.disagreements if c is not None][:10],
                "note": "model and implementation differ on these inputs; the oracle found no input on which "
                        "the property itself fails, so the property is no longer shown to hold"})
            lines.append("VIOLATION property=%s replay=%s no-failing-input-found" % (self.pid, path))
        proof_ok = audit_info["discharged"] == audit_info["obligations"] and not audit_info["forbidden_hits"]
        if not proof_ok:
            nviol += 1
            path = self._write_replay({"property": self.pid, "kind": "proof-audit-failed", "audit": audit_info})
            lines.append("VIOLATION property=%s replay=%s no-failing-input-found" % (self.pid, path))
        if not self.samples:
            self.samples.append("(no sample recorded)")
        ev = {
            "property_id": self.pid, "tier": self.tier, "seed": self.seed, "level": "proof",
            "coverage": {
                "obligations": audit_info["obligations"], "discharged": audit_info["discharged"],
                "checker_cmd": audit_info["checker_cmd"],
                "trusted_base": ["Lean 4 kernel", "axioms: " + ", ".join(sorted({a for v in audit_info["axioms"].values() for a in v}) or ["none"]),
                                 "hand-written model of the Python code (Model/*.lean), tied by the correspondence run below",
                                 "correspondence harness (harness/*.py) and line-protocol driver (Driver/Main.lean)",
                                 level_note],
                "theorems": audit_info["theorems"], "axioms_per_theorem": audit_info["axioms"],
                "evaluations": self.evals, "distinct_nontrivial": len(self.distinct), "rule": rule,
                "samples": self.samples[:8], "traces_validated_against_impl": self.traces,
                "disagreements": len(self.disagreements), "known_findings_hit": list(self.known_hits.keys()),
                "distribution": dict(sorted(self.dist.items())),
            },
            "assumptions": list(assumptions),
            "wall_s": round(time.time() - self.t0, 2),
            "violations": nviol,
        }
        if audit_info.get("leanchecker"):
            ev["coverage"]["independent_recheck"] = dict(audit_info["leanchecker"], tool="leanchecker (lake env leanchecker <Props modules and their project imports>)")
        if self.exhaustive is not None:
            ev["coverage"]["exhaustive"] = self.exhaustive
        ev["coverage"].update(self.extra)
        if self.notes:
            ev["coverage"]["notes"] = self.notes
        os.makedirs(os.path.join(OUT, "evidence"), exist_ok=True)
        with open(os.path.join(OUT, "evidence", self.pid + ".json"), "w") as f:
            json.dump(ev, f, indent=1, sort_keys=True, default=repr)
            f.write("\n")
        for l in lines:
            print(l)
        print("%s %s seed=%d: %d evaluations, %d distinct non-trivial, %d/%d obligations discharged, %d disagreements, %.1fs"
              % (self.pid, self.tier, self.seed, self.evals, len(self.distinct), audit_info["discharged"],
                 audit_info["obligations"], len(self.disagreements), time.time() - self.t0))
        sys.stdout.flush()
        return 1 if nviol else 0

    def _write_replay(self, obj):
        blob = json.dumps(obj, indent=1, sort_keys=True, default=repr)
        h = hashlib.sha1(blob.encode()).hexdigest()[:12]
        rel = os.path.join("replays", self.pid, h + ".json")
        with open(os.path.join(OUT, rel), "w") as f:
            f.write(blob + "\n")
        return rel


def replay_directed(module, pid, path):
    """a violation found by a directed task (judged on the real run alone) names the task function and its arguments: run it
    again; None when the replay file is of another kind"""
    import json
    obj = json.load(open(path))
    d = obj.get("replay", {}).get("directed") if isinstance(obj.get("replay"), dict) else None
    if not d:
        return None
    r = getattr(module, d["fn"])(d["task"])
    if "machinery" in r:
        raise MachineryError(r["machinery"])
    bad = r.get("bad") or r.get("problems") or []
    print(json.dumps({"task": d, "bad": [{k: v for k, v in b.items() if k != "world"} if isinstance(b, dict) else b for b in bad]}, indent=1, default=repr))
    if bad:
        print("VIOLATION property=%s replay=%s" % (pid, path))
        return 1
    return 0
