"""Shared evaluation of one world for trash-list / trash-restore / trash-empty / trash-rm:
implementation run, model run, correspondence, and the Spec oracles (effects on every trashed
entry, frame outside the trash directories, listing = bag, crash states).  Expectations come from
the world's own ground truth (the generator knows what it put in the trash), from the real
kernel's view of the freshly built sandbox, and from Python's fnmatch / datetime — never from the
code under test."""
import datetime
import fnmatch
import os
import re
import stat

from .lean import hx, unhx
from .model import (canon_stderr, canon_stdout, cmd_request, dedup, diff_states, model_outs, rows_to_state,
                    snap_to_state, snapshot_rows)
from .putcheck import dev_of, spec_home_trash
from .sandbox import run_world

DATE_RX = re.compile(r"^(\d{4})-(\d{1,2})-(\d{1,2})[Tt](\d{1,2}):(\d{1,2}):(\d{1,2})$")


def truth_date(s):
    m = DATE_RX.match(s)
    if not m:
        return None
    try:
        return datetime.datetime(*map(int, m.groups()))
    except ValueError:
        return None


def read_facts(sb, world):
    """trash dirs in scope per the spec, as the real kernel sees the before-state"""
    uid = world.get("uid", 0)
    env = world.get("env", {})
    cmd = world["cmd"]
    o = world.get("opts", {})

    def real(m):
        r = sb.to_real(m)
        return r if r.startswith(b"/") else os.path.join(sb.to_real(world["cwd"]), r)

    scope = []   # (canonical model dir, base string, kind)
    user_dirs = o.get("userDirs") or ([o["trashDir"]] if o.get("trashDir") else [])
    if cmd in ("list", "empty", "restore") and user_dirs:
        for d in user_dirs:
            c = os.path.realpath(real(d))
            scope.append((sb.to_model(c), sb.to_model(dev_of(sb, world, c)), "custom"))
    else:
        h = spec_home_trash(env)
        if h is not None:
            scope.append((sb.to_model(os.path.realpath(real(h))), b"/", "home"))
        vols = world["mounts"]
        tv = env.get("TRASH_VOLUMES")
        if cmd != "restore" and tv:
            vols = [v for v in tv.split(b":") if v]
        for v in vols:
            vr = real(v)
            t = vr + b"/.Trash"
            ok = False
            try:
                st = os.lstat(t)
                ok = stat.S_ISDIR(st.st_mode) and bool(st.st_mode & stat.S_ISVTX)
            except OSError:
                pass
            if ok:
                scope.append((sb.to_model(os.path.realpath(t + b"/%d" % uid)), v, "top"))
            alt = vr + b"/.Trash-%d" % uid
            if os.path.isdir(alt):
                scope.append((sb.to_model(os.path.realpath(alt)), v, "alt"))
    insecure_roots = []
    insecure_aliases = []
    for v in world["mounts"]:
        t = real(v) + b"/.Trash"
        if os.path.lexists(t):
            try:
                st = os.lstat(t)
                ok = stat.S_ISDIR(st.st_mode) and bool(st.st_mode & stat.S_ISVTX)
            except OSError:
                ok = False
            if not ok and os.path.isdir(t + b"/%d" % uid):
                rr = sb.to_model(os.path.realpath(t + b"/%d" % uid))
                if any(rr == d_ for d_, _b, _k in scope):
                    # the insecure name is an alias (through a symbolic link) of a directory that another volume reaches
                    # securely: its content is legitimately in scope - as entries of that other volume, never of this one
                    insecure_aliases.append((v, rr))
                else:
                    insecure_roots.append(rr)
    cwd_real = os.path.realpath(real(world["cwd"]))
    return {"scope": scope, "insecure_roots": insecure_roots, "insecure_aliases": insecure_aliases, "cwd": sb.to_model(cwd_real)}


def all_slots(before, tdirs):
    """every (T, N) with an info file or a payload, from the before snapshot"""
    out = set()
    for t in tdirs:
        for p in before:
            if p.startswith(t + b"/info/") and b"/" not in p[len(t) + 6:] and p.endswith(b".trashinfo"):
                out.add((t, p[len(t) + 6:-10]))
            elif p.startswith(t + b"/files/") and b"/" not in p[len(t) + 7:]:
                out.add((t, p[len(t) + 7:]))
    return out


def in_scope_path(dirpath, loc):
    return dirpath == b"/" or loc == dirpath or loc.startswith(dirpath + b"/")


def expectations(world, facts, before, obs):
    """per slot: kept / purged / restored(dest) / any  (+ notes for the caller)"""
    cmd, o = world["cmd"], world.get("opts", {})
    meta = world["meta"]
    scope_dirs = {d for d, _b, _k in facts["scope"]}
    tdirs = sorted({e["tdir"] for e in meta["entries"]} | {t for t, _ in meta["tdirs"]})
    good = {(e["tdir"], e["name"]): e for e in meta["entries"]}
    slots = {}
    for (t, n) in all_slots(before, tdirs):
        slots[(t, n)] = "any" if (t, n) not in good else "kept"
    notes = {"tags": []}
    for (t, n) in slots:
        if t not in scope_dirs:
            slots[(t, n)] = "kept"          # not a trash dir the command may use (C08 / --trash-dir)
    inscope_good = [e for e in meta["entries"] if e["tdir"] in scope_dirs]
    if cmd == "list":
        for k in slots:
            slots[k] = "kept"
    elif cmd == "rm":
        if world.get("args"):
            pat = os.fsdecode(world["args"][0])
            for e in inscope_good:
                subj = e["loc"] if pat.startswith("/") else os.path.basename(e["loc"])
                if pat and fnmatch.fnmatchcase(os.fsdecode(subj), pat):
                    slots[(e["tdir"], e["name"])] = "purged"
        else:
            for k in slots:
                slots[k] = "kept"
    elif cmd == "empty":
        reply = world.get("stdin")
        consent = (not o.get("interactive")) or (reply is not None and reply[:1].lower() == b"y")
        if o.get("dryRun") or not consent:
            for k in slots:
                slots[k] = "kept"
            notes["all_kept"] = True
        else:
            now = datetime.datetime(*o["now"])
            days = o.get("days")
            overflow = False
            if days is not None:
                try:
                    limit = now - datetime.timedelta(days=days)
                except OverflowError:
                    overflow = True
            for e in inscope_good:
                k = (e["tdir"], e["name"])
                if days is None:
                    slots[k] = "purged"
                elif overflow:
                    slots[k] = "kept"
                else:
                    d = truth_date(e["date"])
                    slots[k] = "purged" if (d is not None and d < limit) else "kept"
            # (DAYS beyond timedelta's range: the run aborts at the first dated entry it meets; orphans and undated
            #  neighbours handled before that point may already be gone - they stay "any"; no dated entry is selected)
    elif cmd == "restore":
        notes.update(restore_expect(world, facts, before, obs, slots, inscope_good))
    return slots, notes


def restore_expect(world, facts, before, obs, slots, inscope_good):
    o = world.get("opts", {})
    notes = {"tags": []}
    cwd = facts["cwd"]
    arg = o.get("path", b"")
    target = os.path.normpath(os.path.join(cwd + b"/", arg))
    offered_truth = [e for e in inscope_good if in_scope_path(target, e["loc"])]
    notes["offered_truth"] = offered_truth
    # what was printed
    text = canon_stdout("restore", obs["stdout"])
    for tail in (b"No files were restored\n",):
        if text.endswith(tail):
            text = text[:-len(tail)]
    printed = []
    starts = [m for m in re.finditer(rb"(?m)^ *(\d+) ((?:\d{4}-\d\d-\d\d \d\d:\d\d:\d\d)|None) ", text)]
    for k, m in enumerate(starts):
        end = starts[k + 1].start() if k + 1 < len(starts) else len(text)
        loc = text[m.end():end]
        if loc.endswith(b"\n"):
            loc = loc[:-1]
        printed.append((int(m.group(1)), m.group(2), loc))
    notes["printed"] = printed
    reply = world.get("stdin")
    for k in slots:
        if slots[k] != "any":
            slots[k] = "kept"
    if reply is None or reply.strip(b"\n") == b"" or not printed:
        notes["selection"] = "none"
        return notes
    r = reply.rstrip(b"\n").decode("latin-1")
    idx = []
    ok = True
    for item in r.split(","):
        if "-" in item:
            parts = item.split("-")
            if len(parts) != 2 or not re.match(r"^\s*\+?\d+(_\d+)*\s*$", parts[0]) or not re.match(r"^\s*\+?\d+(_\d+)*\s*$", parts[1]):
                ok = False
                break
            idx += list(range(int(parts[0]), int(parts[1]) + 1)) if int(parts[1]) - int(parts[0]) < 1000 else [10 ** 9]
        elif re.match(r"^\s*\+?\d+(_\d+)*\s*$", item):
            idx.append(int(item))
        else:
            ok = False
            break
    if not ok or any(i >= len(printed) for i in idx):
        notes["selection"] = "invalid"
        return notes
    notes["selection"] = idx
    # walk the selection in order; the first refusal / failure stops the run
    stopped = False
    done = set()
    restored_locs = set()
    for i in idx:
        _n, dstr, loc = printed[i]
        cands = [e for e in offered_truth if e["loc"] == loc and
                 (str(truth_date(e["date"])) if truth_date(e["date"]) else "None").encode() == dstr]
        if len(cands) != 1:
            notes["tags"].append("restore:selected-malformed-or-ambiguous")
            notes["stop_checking"] = True
            break
        e = cands[0]
        k = (e["tdir"], e["name"])
        if stopped or k in done:
            continue
        dest_before = before.get(loc)
        if loc.endswith(b"/") and loc.rstrip(b"/") != b"":
            # a recorded Path with a trailing slash (other implementations write directories so): what stands at the
            # path without the slash is in the way all the same - a non-directory there must survive and stops the run
            at = before.get(loc.rstrip(b"/"))
            if at is not None and (at[0] != "d") and not (at[0] == "l" and _link_to_dir(before, loc.rstrip(b"/"))) \
                    and not o.get("overwrite"):
                stopped = True
                notes["refused"] = True
                notes["tags"].append("restore:trailing-slash-path-onto-nondir")
                continue
            slots[k] = "any"
            notes["tags"].append("restore:trailing-slash-path")
            notes["stop_checking"] = True
            break
        if any(c in (b".", b"..") for c in loc.split(b"/")):
            # a recorded Path with '.' or '..' components (no trash-put writes one; other tools may): os.makedirs works
            # on the string and may create 'gone' of 'a/gone/../x' before it fails - or succeed.  What is certain: the
            # file the path designates once every missing directory exists is never replaced without --overwrite
            at = _virtual_dest(before, loc)
            if at is None and loc.startswith(b"/"):
                # a symbolic link on the way ('a/link/../x'): the kernel follows it before it goes up.  When every directory
                # on that way exists, the entry goes exactly where the kernel says - not where the text collapses to
                from .model import phys_resolve
                pr = phys_resolve(before, loc)
                par_ = pr.rsplit(b"/", 1)[0] or b"/"
                if before.get(par_, ("",))[0] == "d" and before.get(pr) is None and not o.get("overwrite") \
                        and before.get(e["tdir"] + b"/files/" + e["name"]) is not None:
                    slots[k] = ("restored", pr)
                    done.add(k)
                    restored_locs.add(loc)
                    notes["tags"].append("restore:dot-components-through-link")
                    continue
            if at is not None and before.get(at) is not None and not o.get("overwrite"):
                notes["refused"] = True
                notes["tags"].append("restore:dot-components-onto-existing")
                notes["protect"] = (at, e["tdir"] + b"/info/" + e["name"] + b".trashinfo", e["tdir"] + b"/files/" + e["name"])
                notes["stop_checking"] = True       # (directories made on the way are none of the frame's business)
                break
            slots[k] = "any"
            notes["tags"].append("restore:dot-components")
            notes["stop_checking"] = True
            break
        if loc in restored_locs:
            # restored earlier in this very run: it exists now
            if o.get("overwrite"):
                notes["tags"].append("restore:same-location-twice-with-overwrite")
                notes["stop_checking"] = True
                break
            dest_before = ("f", b"", 0, 0, b"")
            notes["tags"].append("restore:same-location-twice")
        under_dest = any(p.startswith(loc + b"/") for p in before)
        # is any ancestor of the destination something else than a directory?  (then mkdirs fails)
        if dest_before is not None and not o.get("overwrite"):
            stopped = True
            notes["refused"] = True
            continue
        if dest_before is not None and o.get("overwrite"):
            kind = dest_before[0]
            mts = sorted(world["mounts"], key=len, reverse=True)
            devof = lambda p: next((m for m in mts if p == m or p.startswith(m + b"/")), b"/")
            payload = before.get(e["tdir"] + b"/files/" + e["name"])
            if kind == "d":
                # the property only speaks about non-directory destinations
                slots[k] = "any"
                notes["tags"].append("restore:overwrite-onto-directory")
                notes["stop_checking"] = True
                break
            # a non-directory destination must be replaced by the restored entry; classify the cases
            # in which the pinned tree is known not to do so (known findings)
            if kind == "l" and _link_to_dir(before, loc):
                notes["restore_class"] = "overwrite-onto-symlink-to-dir"
            elif payload is not None and payload[0] == "d":
                notes["restore_class"] = "overwrite-dir-payload-over-nondir"
            elif devof(e["tdir"]) != devof(os.path.dirname(loc)):
                notes["restore_class"] = "overwrite-across-volumes"
            if notes.get("restore_class"):
                notes["tags"].append("restore:" + notes["restore_class"])
        if before.get(e["tdir"] + b"/files/" + e["name"]) is None:
            stopped = True
            continue
        slots[k] = ("restored", loc)
        done.add(k)
        restored_locs.add(loc)
    return notes


def _virtual_dest(before, loc):
    """where an absolute path string leads once all its missing directories have been created (None: through a link)"""
    if not loc.startswith(b"/"):
        return None
    cur = b""
    for comp in loc.split(b"/"):
        if comp in (b"", b"."):
            continue
        if comp == b"..":
            cur = cur.rsplit(b"/", 1)[0]
            continue
        cur = cur + b"/" + comp
        v = before.get(cur)
        if v is not None and v[0] == "l":
            return None
    return cur or b"/"


def _link_to_dir(before, p):
    v = before.get(p)
    if v is None or v[0] != "l":
        return False
    t = v[4]
    q = t if t.startswith(b"/") else os.path.normpath(os.path.join(os.path.dirname(p), t))
    w = before.get(q)
    return w is not None and (w[0] == "d" or (w[0] == "l" and _link_to_dir(before, q)))


AGE_RX = re.compile(rb"@AGE:(-?\d+)@")


def materialise_clock(world):
    """worlds that run trash-empty on the real clock: "now" is this moment in the world's time zone, the dates written
    as ages become dates relative to it (so that a replay tomorrow is the same experiment)"""
    rc = world.get("opts", {}).get("realClock")
    if not rc:
        return world
    tz = datetime.timezone(datetime.timedelta(hours=rc["utcOffsetHours"]))
    now = datetime.datetime.now(tz).replace(tzinfo=None, microsecond=0)
    fill = lambda m: (now + datetime.timedelta(seconds=int(m.group(1)))).strftime("%Y-%m-%dT%H:%M:%S").encode()
    w = dict(world)
    w["opts"] = dict(world["opts"], now=[now.year, now.month, now.day, now.hour, now.minute, now.second])
    w["nodes"] = [dict(n, data=AGE_RX.sub(fill, n["data"])) if n.get("k") == "f" and b"@AGE:" in n.get("data", b"") else n
                  for n in world["nodes"]]
    meta = dict(world["meta"])
    meta["entries"] = [dict(e, date=AGE_RX.sub(fill, e["date"].encode("latin-1")).decode("latin-1")) if "@AGE:" in str(e.get("date")) else e
                       for e in meta.get("entries", [])]
    w["meta"] = meta
    return w


def evaluate(world, drv, want_states=False, oracles=("effects",), plan=None, faults=None, interrupt_sweep=0):
    world = materialise_clock(world)
    plan = dict(plan or {})
    if want_states:
        plan["states"] = True
    obs = run_world(world, plan, facts=read_facts)
    facts = obs["facts"]
    cmd = world["cmd"]
    res = {"mismatch": [], "oracle": {}, "tags": ["cmd:" + cmd, "exit:%s" % obs["exit"]], "exc": obs.get("exc"),
           "obs_exit": obs["exit"]}
    if obs.get("escaped"):
        res["mismatch"].append({"what": "operation outside the sandbox", "escapes": obs["escapes"]})
    before = snap_to_state(obs["before"])
    after = snap_to_state(obs["after"])
    # ---- model -------------------------------------------------------------------------------
    m = drv.ask(cmd_request(world, states=want_states, faults=faults))
    mafter = rows_to_state(m["final"])
    so, se = model_outs(cmd, m["outs"])
    io_ = canon_stdout(cmd, obs["stdout"], world.get("opts", {}).get("interactive"))
    ie = canon_stderr(cmd, obs["stderr"])
    if cmd == "restore":
        ie = [x for x in ie if x[0] == "traceback"]
        se = [x for x in se if x[0] == "traceback"]
    if after != mafter:
        res["mismatch"].append({"what": "final state", "diff": diff_states(after, mafter)})
    if obs["exit"] != m["exit"]:
        res["mismatch"].append({"what": "exit status", "impl": obs["exit"], "model": m["exit"], "exc": obs.get("exc"), "tb": obs.get("tb")})
    if io_ != so:
        res["mismatch"].append({"what": "stdout", "impl": repr(io_[-800:]), "model": repr(so[-800:])})
    if ie != se:
        res["mismatch"].append({"what": "stderr", "impl": repr(ie[:10]), "model": repr(se[:10]), "raw": repr(obs["stderr"][-600:])})
    if want_states:
        ist = dedup([snap_to_state(s) for s in obs["states"]])
        mst = dedup([rows_to_state(s) for s in m["states"]])
        res["n_states"] = len(ist)
        if ist != mst:
            k = next((i for i, (a, c) in enumerate(zip(ist, mst)) if a != c), min(len(ist), len(mst)))
            res["mismatch"].append({"what": "crash-state sequence", "impl_len": len(ist), "model_len": len(mst), "first_difference": k,
                                    "diff": diff_states(ist[k], mst[k]) if k < len(ist) and k < len(mst) else None})
    # ---- oracles -----------------------------------------------------------------------------------
    slots, notes = expectations(world, facts, before, obs)
    res["tags"] += notes.get("tags", [])
    res["notes"] = {k: v for k, v in notes.items() if k in ("selection", "refused", "all_kept", "restore_class")}
    mounts = [hx(x) for x in world["mounts"]]
    base = {"op": "oracle", "before": snapshot_rows(obs["before"]), "after": snapshot_rows(obs["after"]), "mounts": mounts}
    tdirs = sorted({t for (t, _n) in slots} | {d for d, _b, _k in facts["scope"]})
    slot_rows = []
    for (t, n), e in sorted(slots.items()):
        row = {"t": hx(t), "n": hx(n), "expect": e if isinstance(e, str) else "restored"}
        if not isinstance(e, str):
            row["dest"] = hx(e[1])
        slot_rows.append(row)
    for e in set(x if isinstance(x, str) else x[0] for x in slots.values()):
        res["tags"].append("expect:" + e)
    if "effects" in oracles and notes.get("protect"):
        # a destination that exists once the missing directories of a dotted path are made: it is never replaced without
        # --overwrite, and the entry stays in the trash (node equality on the snapshots)
        at, ip, pp = notes["protect"]
        same = lambda q: before.get(q) is not None and after.get(q) is not None and before[q][:3] == after[q][:3] and before[q][4] == after[q][4]
        bad_ = [q for q in [at, ip, pp] + [q for q in before if q.startswith(at + b"/") or q.startswith(pp + b"/")] if not same(q)]
        res["oracle"]["effects"] = {"ok": not bad_, "verdict": "ok" if not bad_ else
                                    "Effects.existingDestinationReplaced without --overwrite (or the entry left the trash): %r" % bad_[:3]}
    if "effects" in oracles and not notes.get("stop_checking"):
        crashed = obs.get("exc") is not None
        if not crashed or cmd in ("list",):
            res["oracle"]["effects"] = drv.ask(dict(base, prop="effects", dirs=[hx(t) for t in tdirs], slots=slot_rows))
        else:
            res["tags"].append("crashed:" + str(obs.get("exc")))
            # the run died: which entries it got to is anybody's guess, but the frame holds all the same (nothing outside
            # files/ and info/ of the trash directories, and those two directories themselves, may have changed)
            any_rows = [dict(r_, expect="any") for r_ in slot_rows]
            for r_ in any_rows:
                r_.pop("dest", None)
            fr = drv.ask(dict(base, prop="effects", dirs=[hx(t) for t in tdirs], slots=any_rows))
            if not fr["ok"] and ("outside" in fr["verdict"] or "Dir" in fr["verdict"] or "dir" in fr["verdict"]):
                res["oracle"]["effects"] = fr
    if "crash15" in oracles and want_states and not notes.get("stop_checking"):
        bad = None
        for i, s in enumerate(obs["states"]):
            r = drv.ask(dict(base, prop="crash15", after=snapshot_rows(s), slots=slot_rows))
            if not r["ok"]:
                bad = dict(r, index=i)
                break
        res["oracle"]["crash15"] = bad or {"ok": True, "verdict": "ok"}
        if interrupt_sweep and bad is None and obs.get("exc") is None:
            # a keyboard interrupt (SIGINT) right after each mutating call in turn: the interpreter unwinds through the
            # program's own handlers (finally / except clauses); what they leave behind is judged like a killed run
            nint = 0
            for k in range(min(len(obs["trace"]), interrupt_sweep)):
                o = run_world(world, {"interrupt_after": k})
                nint += 1
                r = drv.ask(dict(base, prop="crash15", after=snapshot_rows(o["after"]), slots=slot_rows))
                if not r["ok"]:
                    bad = {"ok": False, "verdict": "%s (after a keyboard interrupt behind call %d, %s)" % (
                        r["verdict"], k, obs["trace"][k][0])}
                    break
            res["oracle"]["crash15"] = bad or {"ok": True, "verdict": "ok"}
            res["n_states"] = res.get("n_states", 0) + nint
            res["tags"].append("interrupt-sweep")
    if "bag" in oracles and cmd == "list" and obs.get("exc") is None:
        lines = [l for l in obs["stdout"].split(b"\n")]
        # names may contain newlines: rebuild lines by the leading date / question marks
        recs, cur = [], None
        for l in lines:
            if re.match(rb"^(\d{4}-\d\d-\d\d \d\d:\d\d:\d\d|\?\?\?\?-\?\?-\?\? \?\?:\?\?:\?\?) ", l):
                if cur is not None:
                    recs.append(cur)
                cur = l
            elif cur is not None and l != b"":
                cur += b"\n" + l
            elif cur is not None and l == b"" and False:
                pass
        if cur is not None:
            recs.append(cur)
        res["oracle"]["bag"] = drv.ask(dict(base, prop="bag", lines=[hx(x) for x in recs],
                                            dirsWithBase=[{"dir": hx(d), "base": hx(b)} for d, b, _k in facts["scope"]]))
        res["oracle"]["bag"].pop("bag", None)
    if "c08" in oracles and facts["insecure_roots"]:
        # nothing stored under an insecure .Trash/$uid is shown, restored or deleted
        mentions = False
        for e in world["meta"]["entries"]:
            if e["tdir"] in facts["insecure_roots"]:
                # the same original location may also be recorded by entries of usable directories: count the lines
                shown = (obs["stdout"] + b"\n").count(b" " + e["loc"] + b"\n")
                if b"/../" in obs["stdout"]:
                    # a volume spelled through 'link/..': the printed path names the same place in other words
                    from .model import phys_resolve
                    for ln in obs["stdout"].split(b"\n"):
                        m_ = re.match(rb"^(?: *\d+ )?\S+ \S+ (/.*/\.\./.*)$", ln)
                        if m_ and os.path.normpath(m_.group(1)) == e["loc"] and phys_resolve(before, m_.group(1)) != e["loc"]:
                            shown += 1        # textually collapsed it IS the insecure entry's location, physically another
                elsewhere = sum(1 for o in world["meta"]["entries"] if o["loc"] == e["loc"] and o["tdir"] not in facts["insecure_roots"])
                if shown > elsewhere:
                    mentions = True
        res["oracle"]["C08"] = drv.ask(dict(base, prop="C08", roots=[hx(r) for r in facts["insecure_roots"]], mentions=mentions))
        res["tags"].append("c08:insecure-populated")
    if "c08" in oracles and facts.get("insecure_aliases") and "C08" not in res["oracle"]:
        mentions = False
        for v_, root in facts["insecure_aliases"]:
            for e in world["meta"]["entries"]:
                if e["tdir"] == root and not e["rec"].startswith(b"/"):
                    wrong = v_.rstrip(b"/") + b"/" + e["rec"]          # the entry read as if it belonged to the insecure volume
                    shown = (obs["stdout"] + b"\n").count(b" " + wrong + b"\n")
                    legit = sum(1 for o in world["meta"]["entries"] if o["loc"] == wrong)
                    if shown > legit:
                        mentions = True
        res["oracle"]["C08"] = drv.ask(dict(base, prop="C08", roots=[], mentions=mentions))
        res["tags"].append("c08:insecure-alias-of-secure")
    if cmd == "restore":
        # C13 listing: every in-scope well-formed entry is offered exactly once, numbered from 0, ordered as requested
        pr = notes.get("printed", [])
        truth = notes.get("offered_truth", [])
        problems = []
        if [p[0] for p in pr] != list(range(len(pr))):
            problems.append("numbering")
        wants = {}
        for e in truth:
            d = truth_date(e["date"])
            want = ((str(d) if d else "None").encode(), e["loc"])
            wants[want] = wants.get(want, 0) + 1
        for want, k in wants.items():
            # one line per entry: two entries trashed from the same place within the same second are two lines
            shown = sum(1 for p in pr if (p[1], p[2]) == want)
            if shown < k:
                problems.append("missing:" + repr(want[1]) + ("(%d of %d)" % (shown, k) if k > 1 else ""))
            elif shown > k and all(x.get("loc") != want[1] or x in truth for x in world["meta"]["entries"]):
                problems.append("offered-more-than-once:" + repr(want[1]))
        sortm = world.get("opts", {}).get("sort", "date")
        if sortm == "date":
            keys = [p[1] if p[1] != b"None" else b"0001-01-01 00:00:00" for p in pr]
            if keys != sorted(keys):
                problems.append("not-sorted-by-date")
        elif sortm == "path":
            keys = [os.fsdecode(p[2] + p[1]) for p in pr]
            if keys != sorted(keys):
                problems.append("not-sorted-by-path")
        good_locs = {e["loc"] for e in truth}
        all_good = {e["loc"] for e in world["meta"]["entries"]}
        for p in pr:
            if p[2] in all_good and p[2] not in good_locs:
                problems.append("out-of-scope-offered:" + repr(p[2]))
        res["oracle"]["listing"] = {"ok": not problems, "verdict": ";".join(problems) or "ok"}
        sel = notes.get("selection")
        if sel == "invalid" and obs["exit"] == 0:
            res["oracle"]["exit"] = {"ok": False, "verdict": "invalid-selection-but-exit-0"}
        if notes.get("refused") and obs["exit"] == 0:
            res["oracle"]["exit"] = {"ok": False, "verdict": "refused-overwrite-but-exit-0"}
    res["after_state"] = snap_to_state(obs["after"])
    res["before_state"] = snap_to_state(obs["before"])
    res["stdout"], res["stderr"] = obs["stdout"], obs["stderr"]
    res["trace"] = obs["trace"]
    return res
