"""World dicts -> driver requests; driver responses / implementation observations -> canonical form."""
import re

from .lean import hx, unhx
from .sandbox import MODEL_ROOT, MTIME_EPOCH

DATE_PLACEHOLDER = b"@DATE@"
DATE_RE = re.compile(rb"DeletionDate=(\d{4}-\d\d-\d\dT\d\d:\d\d:\d\d)")


class W:
    """small builder for worlds (model paths start with b'/SBX')"""

    def __init__(self):
        self.nodes = {}
        self.mounts = [MODEL_ROOT]
        self.t = MTIME_EPOCH + 100
        self.dir(MODEL_ROOT)

    def _tick(self):
        self.t += 7
        return self.t

    def _parents(self, p):
        """create missing ancestors; False when an ancestor is not a directory or p is taken"""
        parts = p.split(b"/")
        for i in range(2, len(parts)):
            q = b"/".join(parts[:i])
            if q in self.nodes and self.nodes[q]["k"] != "d":
                return False
        if p in self.nodes and p != MODEL_ROOT:
            return False
        for i in range(2, len(parts)):
            q = b"/".join(parts[:i])
            if q and q not in self.nodes:
                self.nodes[q] = {"p": q, "k": "d", "mode": 0o755, "mtime": self._tick()}
        return True

    def dir(self, p, mode=0o755):
        if p in self.nodes and self.nodes[p]["k"] == "d":
            self.nodes[p]["mode"] = mode
            return p
        if self._parents(p):
            self.nodes[p] = {"p": p, "k": "d", "mode": mode, "mtime": self._tick()}
        return p

    def file(self, p, data=b"", mode=0o644):
        if self._parents(p):
            self.nodes[p] = {"p": p, "k": "f", "data": data, "mode": mode, "mtime": self._tick()}
        return p

    def fifo(self, p, mode=0o644):
        """a named pipe: for the commands an entry like any other (renamed, unlinked, never opened); the model and the
        snapshots see an empty regular file"""
        if self._parents(p):
            self.nodes[p] = {"p": p, "k": "f", "data": b"", "mode": mode, "mtime": self._tick(), "special": "fifo"}
        return p

    def link(self, p, target):
        if self._parents(p):
            self.nodes[p] = {"p": p, "k": "l", "target": target}
        return p

    def mount(self, p):
        if p not in self.nodes:
            self.dir(p)
        if p not in self.mounts:
            self.mounts.append(p)
        return p

    def world(self, **kw):
        w = {"nodes": sorted(self.nodes.values(), key=lambda n: n["p"]), "mounts": list(self.mounts)}
        w.update(kw)
        return w


def node_row(n):
    if n["k"] == "d":
        return [hx(n["p"]), "d", "", n.get("mode", 0o755), n.get("mtime", MTIME_EPOCH), ""]
    if n["k"] == "f":
        return [hx(n["p"]), "f", hx(n.get("data", b"")), n.get("mode", 0o644), n.get("mtime", MTIME_EPOCH), ""]
    return [hx(n["p"]), "l", "", 0, 0, hx(n["target"])]


def snapshot_rows(snap):
    return [[hx(p), k, hx(d), m, t, hx(g)] for (p, k, d, m, t, g) in snap]


def rows_to_state(rows):
    """driver node rows -> {path: (kind, data, mode, mtime, target)}"""
    return {unhx(r[0]): (r[1], unhx(r[2]), r[3], r[4], unhx(r[5])) for r in rows}


def snap_to_state(snap):
    return {p: (k, d, m, t, g) for (p, k, d, m, t, g) in snap}


def base_request(world, cmd, states=False, faults=None, nodes_rows=None):
    req = {"op": "run", "cmd": cmd,
           "nodes": nodes_rows if nodes_rows is not None else [node_row(n) for n in world["nodes"]],
           "mounts": [hx(m) for m in world["mounts"]],
           "env": {k: hx(v) for k, v in world.get("env", {}).items()},
           "uid": world.get("uid", 0), "cwd": hx(world.get("cwd", MODEL_ROOT)),
           "states": states}
    if faults:
        req["faults"] = faults
    if world.get("mountTable"):
        req["mountTable"] = [hx(m) for m in world["mountTable"]]
    return req


def put_request(world, states=False, faults=None):
    req = base_request(world, "put", states, faults)
    o = world.get("opts", {})
    req["opts"] = {"mode": o.get("mode", "unspecified"),
                   "trashDir": hx(o["trashDir"]) if o.get("trashDir") is not None else None,
                   "homeFallback": bool(o.get("homeFallback")),
                   "forcedVolume": hx(o["forcedVolume"]) if o.get("forcedVolume") is not None else None}
    req["args"] = [hx(a) for a in world["args"]]
    stdin = world.get("stdin")
    req["stdin"] = [hx(l) for l in stdin.split(b"\n")[:-1]] if stdin else []
    req["ints"] = list(world.get("randints", []))
    req["dateStr"] = hx(DATE_PLACEHOLDER)
    return req


def put_argv(opts, args):
    argv = []
    m = opts.get("mode", "unspecified")
    if m == "force":
        argv.append(b"-f")
    elif m == "interactive":
        argv.append(b"-i")
    if opts.get("trashDir") is not None:
        argv += [b"--trash-dir", opts["trashDir"]]
    if opts.get("homeFallback"):
        argv.append(b"--home-fallback")
    if opts.get("forcedVolume") is not None:
        argv += [b"--force-volume", opts["forcedVolume"]]
    argv += [b"-v"] * opts.get("verbose", 0)
    return argv + [b"--"] + list(args)


def canon_dates(state, before_state, window=None):
    """replace the DeletionDate of info files created during the run by the placeholder; returns
    (new state, list of (path, date string)) so that the caller can check the clock window"""
    out, dates = {}, []
    for p, v in state.items():
        if v[0] == "f" and p.endswith(b".trashinfo") and before_state.get(p) != v:
            m = DATE_RE.search(v[1])
            if m:
                dates.append((p, m.group(1)))
                v = (v[0], DATE_RE.sub(b"DeletionDate=" + DATE_PLACEHOLDER, v[1], count=1), v[2], v[3], v[4])
        out[p] = v
    return out, dates


def phys_resolve(state, path, depth=0):
    """the canonical path a kernel would reach for `path` in the canonical state `state` (final component not followed):
    symbolic links are followed before a '..' after them is applied"""
    cur = b""
    parts = [c for c in path.split(b"/") if c not in (b"", b".")]
    for i, c in enumerate(parts):
        if c == b"..":
            cur = cur.rsplit(b"/", 1)[0]
            continue
        nxt = cur + b"/" + c
        v = state.get(nxt)
        if v is not None and v[0] == "l" and i < len(parts) - 1 and depth < 40:
            tgt = v[4]
            full = tgt if tgt.startswith(b"/") else cur + b"/" + tgt
            cur = phys_resolve(state, full + b"/.", depth + 1)
        else:
            cur = nxt
    return cur or b"/"


def diff_states(a, b, limit=6):
    """human-readable differences between two canonical states"""
    out = []
    for p in sorted(set(a) | set(b)):
        if a.get(p) != b.get(p):
            out.append({"path": repr(p), "impl": repr(a.get(p)), "model": repr(b.get(p))})
            if len(out) >= limit:
                break
    return out


def dedup(seq):
    out = []
    for s in seq:
        if not out or out[-1] != s:
            out.append(s)
    return out


# ---------------------------------------------------------------------------------------------------
# the four reading commands
# ---------------------------------------------------------------------------------------------------

def cmd_request(world, states=False, faults=None, nodes_rows=None):
    cmd = world["cmd"]
    if cmd == "put":
        return put_request(world, states, faults)
    req = base_request(world, cmd, states, faults, nodes_rows)
    o = world.get("opts", {})
    stdin = world.get("stdin")
    req["stdin"] = [hx(l) for l in stdin.split(b"\n")[:-1]] if stdin else []
    if stdin and not stdin.endswith(b"\n") and stdin.split(b"\n")[-1] != b"":
        req["stdin"].append(hx(stdin.split(b"\n")[-1]))
    if cmd == "list":
        req["opts"] = {"userDirs": [hx(d) for d in o.get("userDirs", [])]}
    elif cmd == "restore":
        req["opts"] = {"path": hx(o.get("path", b"")), "sort": o.get("sort", "date"),
                       "trashDir": hx(o["trashDir"]) if o.get("trashDir") is not None else None,
                       "overwrite": bool(o.get("overwrite"))}
    elif cmd == "empty":
        req["opts"] = {"userDirs": [hx(d) for d in o.get("userDirs", [])], "dryRun": bool(o.get("dryRun")),
                       "verbose": o.get("verbose", 0), "interactive": bool(o.get("interactive")),
                       "now": o["now"], "nowUs": o.get("nowUs", 0)}
        if o.get("days") is not None:
            req["opts"]["days"] = o["days"]
    elif cmd == "rm":
        req["args"] = [hx(a) for a in world.get("args", [])]
    return req


def cmd_argv(world):
    cmd, o = world["cmd"], world.get("opts", {})
    if cmd == "put":
        return put_argv(o, world["args"])
    if cmd == "list":
        return [x for d in o.get("userDirs", []) for x in (b"--trash-dir", d)]
    if cmd == "restore":
        a = []
        if o.get("sort"):
            a += [b"--sort", o["sort"].encode()]
        if o.get("trashDir") is not None:
            a += [b"--trash-dir", o["trashDir"]]
        if o.get("overwrite"):
            a.append(b"--overwrite")
        if o.get("path", b"") != b"":
            a += [b"--", o["path"]]
        return a
    if cmd == "empty":
        a = [x for d in o.get("userDirs", []) for x in (b"--trash-dir", d)]
        if o.get("dryRun"):
            a.append(b"--dry-run")
        a += [b"-v"] * o.get("verbose", 0)
        if o.get("flags"):
            a += list(o["flags"])           # both -f and -i in some order and spelling: the last one counts
        elif not o.get("ttyDefault"):
            a.append(b"-i" if o.get("interactive") else b"-f")       # ttyDefault: the mode follows isatty(stdin)
        if o.get("days") is not None:
            a.append(b"%d" % o["days"])
        return a
    if cmd == "rm":
        return list(world.get("args", []))      # trash-rm has no option parser: argv[1] is the pattern
    raise ValueError(cmd)


LIST_ERR = [(re.compile(rb"^TrashDir skipped because parent not sticky: (.*)$"), "skipped-not-sticky"),
            (re.compile(rb"^TrashDir skipped because parent is symlink: (.*)$"), "skipped-symlink"),
            (re.compile(rb"^Parse Error: (.*): Unable to parse Path\.$"), "parse-error"),
            (re.compile(rb"^\[Errno \d+\] [^:]*: '(.*)'$"), "io-error"),
            (re.compile(rb"^trash-rm: (.*): unable to parse 'Path'$"), "unparsable"),
            (re.compile(rb"^trash-empty: cannot remove (.*)$"), "cannot-remove")]


def canon_stderr(cmd, err):
    """stderr -> sorted list of (kind, argument)"""
    out = []
    for line in err.split(b"\n"):
        if not line:
            continue
        for rx, kind in LIST_ERR:
            m = rx.match(line)
            if m:
                out.append((kind, m.group(1)))
                break
        else:
            if line.startswith(b"Traceback") or re.match(rb"^[A-Za-z]*Error: ", line):
                if ("traceback", b"") not in out:
                    out.append(("traceback", b""))
            else:
                out.append(("other", line[:200]))
    return sorted(out)


def canon_stdout(cmd, out, interactive=False):
    """stdout as bytes with the prompts removed (prompts are written by input() without newline)"""
    if cmd == "restore":
        return re.sub(rb"What file to restore \[0\.\.\d+\]: ", b"", out)
    if cmd == "empty" and interactive:
        for marker in (b"Proceed? (y/N) ", b"No trash directories to empty.\n"):
            k = out.find(marker)
            if k >= 0:
                return out[k + len(marker):]
    return out


def model_outs(cmd, outs):
    """model output events -> (stdout bytes, sorted stderr (kind, arg) list)"""
    so, se = b"", []
    for o in outs:
        if o[0] == "out":
            so += unhx(o[1]) + b"\n"
        else:
            kind = o[1]
            if kind in ("traceback",):
                if ("traceback", b"") not in se:
                    se.append(("traceback", b""))
            elif kind in ("quit", "die", "invalid-entry", "usage"):
                se.append((kind, b""))
            else:
                se.append((kind, unhx(o[2])))
    return so, sorted(se)


def world_from_state(world, state, **changes):
    """a new world whose node list is a canonical state (snapshot) of a previous run"""
    nodes = []
    for p, (k, d, m, t, g) in sorted(state.items()):
        if k == "d":
            nodes.append({"p": p, "k": "d", "mode": m, "mtime": t if t else MTIME_EPOCH + 50})
        elif k == "f":
            nodes.append({"p": p, "k": "f", "data": d, "mode": m, "mtime": t if t else MTIME_EPOCH + 50})
        elif k == "l":
            nodes.append({"p": p, "k": "l", "target": g})
    w = dict(world)
    w["nodes"] = nodes
    w.update(changes)
    return w
