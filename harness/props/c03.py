"""C03 — every .trashinfo is spec-conformant and decodes back to the exact path and time.

Function-level correspondence of format_trashinfo / parse_path / ParseTrashInfo against
Model.Codec / Model.Date, with the Lean predicate C03.Holds as oracle on what the implementation
writes; the world-level part (what trash-put really writes) is shared with C02's pipelines."""
import datetime
import itertools
import json
import os
import shutil
import tempfile

from ..core import Check, audit, import_repo
from ..lean import Driver, hx, unhx

LEVEL_NOTE = ("modelled, not verified: urllib.parse.quote/unquote, text-mode decoding, strptime/strftime of "
              "CPython 3.12.1 as encoded in Model/Codec.lean and Model/Date.lean; dates with non-ASCII digits "
              "and percent-decoded values that are not UTF-8 are outside the modelled domain; C03Cmd (whole runs of trash-put): put_home_info_conformant(_existing), put_volume_info_relative(_top), put_custom_info_base (the info file written IS formatTrashinfo of the location - absolute in the home trash, relative to $topdir in a volume directory - satisfies C03.Holds and parses back to that location and date), reader_join, put_then_info_own_location, put_custom_info_base_spelling_matters (a --trash-dir spelled through a link records relative to the lexical volume: real behaviour)")
RULE = ("exhaustive: every byte 1-255 except '/' alone and inside a name, every ordered pair of 40 interesting "
        "bytes, depths 1-4, 255-byte names, paths of 2-15 such names (ASCII, UTF-8, escaped, invalid UTF-8: up to 7.6 KB once escaped), 64 boundary dates; then seeded random byte strings and random "
        "foreign .trashinfo contents; a case is non-trivial when it reaches the writer or a reader and distinct "
        "by its input bytes; world level: multi-argument trash-put runs under a clock that advances one hour per "
        "mutating call - every written info is conformant and dated when its own entry was trashed, and trash-list run on what "
        "trash-put left shows every new entry under the path it was trashed from; reader's zone: every day of two years at five times around the change-over hours, read back under 10 POSIX TZ rules (incl. gaps and repeated hours) by each date decoder - the reading is the text that was written")

INTERESTING = [1, 9, 10, 13, 32, 33, 34, 35, 37, 38, 39, 43, 45, 46, 47 + 1, 58, 59, 61, 63, 64, 91, 92, 93, 94, 95,
               96, 123, 126, 127, 128, 0xA9, 0xBF, 0xC0, 0xC2, 0xC3, 0xE2, 0xED, 0xF0, 0xF4, 0xFF]

BOUNDARY_DATES = []
for y in (1000, 1999, 2000, 2023, 2024, 2100, 9999):
    for (m, d) in ((1, 1), (2, 28), (2, 29), (3, 1), (12, 31), (6, 30), (9, 9)):
        for (H, M, S) in ((0, 0, 0), (23, 59, 59), (9, 5, 7)):
            try:
                BOUNDARY_DATES.append(datetime.datetime(y, m, d, H, M, S))
            except ValueError:
                pass
BOUNDARY_DATES = BOUNDARY_DATES[::2][:64]


def date_list(dt):
    return [dt.year, dt.month, dt.day, dt.hour, dt.minute, dt.second]


class Impl:
    def __init__(self):
        import_repo()
        from trashcli.put.format_trash_info import format_trashinfo
        from trashcli.parse_trashinfo.parse_path import parse_path
        from trashcli.parse_trashinfo.parser_error import ParseError
        from trashcli.parse_trashinfo.parse_trashinfo import ParseTrashInfo
        from trashcli.parse_trashinfo.parse_deletion_date import parse_deletion_date
        from trashcli.parse_trashinfo.maybe_parse_deletion_date import maybe_parse_deletion_date
        from trashcli.fs import contents_of
        from trashcli.parse_trashinfo.parse_original_location import parse_original_location
        self.parse_original_location = parse_original_location
        self.format_trashinfo = format_trashinfo
        self.parse_path = parse_path
        self.ParseError = ParseError
        self.ParseTrashInfo = ParseTrashInfo
        self.parse_deletion_date = parse_deletion_date
        self.maybe = maybe_parse_deletion_date
        self.contents_of = contents_of
        base = "/dev/shm" if os.path.isdir("/dev/shm") else None
        self.tmp = tempfile.mkdtemp(prefix="verif-c03-", dir=base)
        self.file = os.path.join(self.tmp, "x.trashinfo")

    def close(self):
        shutil.rmtree(self.tmp, ignore_errors=True)

    def fmt(self, loc, dt):
        try:
            out = self.format_trashinfo(os.fsdecode(loc), dt)
        except UnicodeEncodeError:
            return None
        return out if isinstance(out, bytes) else out.encode()

    def read(self, raw):
        with open(self.file, "wb") as f:
            f.write(raw)
        try:
            return self.contents_of(self.file)
        except UnicodeDecodeError:
            return None

    def path(self, text):
        try:
            return ("ok", os.fsencode(self.parse_path(text)))
        except self.ParseError:
            return ("parse-error", None)

    def location(self, text, volume):
        """what trash-restore makes of the Path line (its own entry point: the un-escaped value joined to the volume)"""
        try:
            return ("ok", os.fsencode(self.parse_original_location(text, os.fsdecode(volume))))
        except self.ParseError:
            return ("parse-error", None)

    def date(self, text):
        got = []
        self.ParseTrashInfo(on_deletion_date=lambda d: got.append(("date", d)),
                            on_invalid_date=lambda: got.append(("invalid", None))).parse_trashinfo(text)
        if not got:
            return ("missing", None)
        assert len(got) == 1
        return got[0]


def gen_locs(ck, tier):
    rng = ck.rng
    for c in range(1, 256):
        if c == 47:
            continue
        yield ("single", bytes([c]))
        yield ("inside", b"/d/a" + bytes([c]) + b"z")
    for a, c in itertools.product(INTERESTING, repeat=2):
        yield ("pair", b"/p/" + bytes([a, c]))
    for depth in range(1, 5):
        yield ("depth", b"/" + b"/".join(b"d%d" % i for i in range(depth)) + b"/f")
        yield ("depth-rel", b"/".join(b"d%d" % i for i in range(depth)) + b"/f")
    # valid UTF-8 that is not in a Unicode normal form: the recorded bytes must stay exactly these
    for nm in ("cafe\u0301", "A\u030a", "\u212b", "\u1100\u1161", "\u00e9\u0301", "o\u0302\u0323", "\u2126", "\ufb01", "\u1e9b\u0323"):
        yield ("unnormalised", b"/d/" + nm.encode("utf-8") + b".txt")
        yield ("unnormalised-dir", b"/" + nm.encode("utf-8") + b"/f")
    yield ("long", b"/" + b"n" * 255)
    yield ("long-utf8", b"/" + "é".encode() * 127)
    yield ("long-esc", b"/" + b" " * 255)
    # deep paths of long names: far below PATH_MAX on disk, several KB once escaped in the .trashinfo
    for depth in (2, 4, 6, 8, 10, 15):
        yield ("deep-ascii", b"/" + b"/".join([b"n" * 255] * depth))
        if depth <= 10:
            yield ("deep-utf8", b"/" + b"/".join(["é".encode() * 127] * depth))
            yield ("deep-esc", b"/" + b"/".join([b" %" * 127] * depth))
            yield ("deep-invalid", b"/" + b"/".join([b"\xff" * 255] * depth))
            yield ("deep-rel-3byte", b"/".join(["€".encode() * 85] * depth))
    n = 3000 if tier == "quick" else 200000
    for _ in range(n):
        k = rng.choice((1, 2, 3, 5, 8, 20))
        pool = rng.choice((INTERESTING, range(1, 256), b"abc/ %.\n"))
        yield ("random", bytes(rng.choice(pool) for _ in range(k)))


DATE_SPELLINGS = ["2024-02-29T23:59:59", "2024-2-9T3:5:7", "2024-02-29t23:59:59", "2024-02-30T00:00:00",
                  "2024-02-29T23:59:60", "2024-02-29T23:59:61", "2024-02-29T24:00:00", "2024-13-01T00:00:00",
                  "0000-01-01T00:00:00", "0001-01-01T00:00:00", "9999-12-31T23:59:59", "2024-02-29T23:59:59 ",
                  " 2024-02-29T23:59:59", "2024-02- 9T23:59:59", "2024-02-29 23:59:59", "2024-02-29T23:59",
                  "24-02-29T23:59:59", "2024-02-29T23:59:59.5", "2024-02-29T23:59:5", "2024-002-29T23:59:59",
                  "", "x", "2024-1-1T1:1:1", "2024-10-31T20:00:00", "2024-11-30T19:09:00", "2023-02-29T00:00:00",
                  "1900-02-29T00:00:00", "2000-02-29T00:00:00", "2024-00-10T00:00:00", "2024-01-00T00:00:00",
                  "2024-01-32T00:00:00", "2024-04-31T00:00:00", "2024-1-1T0:0:0", "2024-01-01T7:60:00",
                  "2024-02-29T23:59:59+0100", "2024-02-29T23:59:59-05:00", "2024-02-29T23:59:59Z", "2024-02-29T23:59:59 UTC",
                  "2024-02-29T23:59:59+00:00", "2024-02-29T23:59:59.000000", "2024-060T23:59:59", "+2024-02-29T23:59:59",
                  "２０２４-02-29T23:59:59", "2024-02-29T23:59:5９"]

PATH_VALUES = [b"/a/b", b"a/b", b"", b"/", b"%41", b"%4", b"%", b"%%41", b"%zz", b"%c3%a9", b"%C3%A9", b"%e9",
               b"%FF", b"a%2Fb", b"a%0Ab", b"a+b", b"a b ", b" /lead", b"/tr ail ", b"%25%32%35", b"/a=b",
               b"/caf\xc3\xa9", b"/x%C3", b"%C3\xc3\xa9", b"%00"]


def gen_contents(ck, tier):
    rng = ck.rng
    for dv in DATE_SPELLINGS:
        yield ("date-spelling", b"[Trash Info]\nPath=/x\nDeletionDate=" + dv.encode() + b"\n")
    for pv in PATH_VALUES:
        yield ("path-value", b"[Trash Info]\nPath=" + pv + b"\nDeletionDate=2024-01-01T00:00:00\n")
    fixed = [b"", b"\n", b"[Trash Info]\n", b"Path=/a", b"Path=/a\r\nDeletionDate=2024-01-01T00:00:00\r\n",
             b"Path=/a\rDeletionDate=2024-01-01T00:00:00\r", b"DeletionDate=2024-01-01T00:00:00\nPath=/a\n",
             b"Path=/a\nPath=/b\nDeletionDate=2024-01-01T00:00:00\nDeletionDate=2020-01-01T00:00:00\n",
             b"Path=/a\nDeletionDate=bad\nDeletionDate=2020-01-01T00:00:00\n", b" Path=/a\n", b"path=/a\n",
             b"[Other]\nPath=/a\nX=1\nDeletionDate=2024-01-01T00:00:00\n", b"Path=/a\xff\n", b"\xff\xfe",
             b"Path=/a\nDeletionDate=2024-01-01T00:00:00", b"Path=/a\n\nDeletionDate=2024-01-01T00:00:00\n\n\n",
             b"\xef\xbb\xbf[Trash Info]\nPath=/a\n", b"Path=/a\x0bDeletionDate=2024-01-01T00:00:00\n",
             b"Path=/a\x0cb\nDeletionDate=2024-01-01T00:00:00\x1c\n", b"Path=/a\xc2\x85b\n",
             b"Path=/a\nDeletionDate=2024-01-01T00:00:00\xe2\x80\xa8\n"]
    for f in fixed:
        yield ("fixed", f)
    n = 2000 if tier == "quick" else 100000
    pieces = [b"Path=", b"DeletionDate=", b"[Trash Info]", b"\n", b"\r\n", b"\r", b"%", b"41", b"/", b"a", b" ",
              b"2024-01-01T00:00:00", b"2024-1-1T0:0:0", b"T", b"t", b"-", b":", b"0", b"9", b"\xc3\xa9", b"\xff",
              b"=", b"60", b"31", b"02", b"30"]
    esc = [b"%41", b"%2F", b"%0A", b"%C3%A9", b"%c3%a9", b"%e9", b"%", b"%4", b"%zz", b"%25", b"%20", b"+", b" "]
    for _ in range(n):
        if rng.random() < 0.25:
            yield ("random", b"".join(rng.choice(pieces) for _ in range(rng.randint(1, 12))))
            continue
        nl = rng.choice((b"\n", b"\n", b"\n", b"\r\n", b"\r"))
        ls = []
        if rng.random() < 0.8:
            ls.append(rng.choice((b"[Trash Info]", b"[Trash Info] ", b"[trash info]", b"[Other]")))
        body = []
        for _ in range(rng.choice((1, 1, 1, 2, 0))):
            v = (b"/" if rng.random() < 0.7 else b"") + b"/".join(
                b"".join(rng.choice([b"a", b"B", b"c", b"\xc3\xa9", b".", b"-"] + esc) for _ in range(rng.randint(1, 4)))
                for _ in range(rng.randint(1, 3)))
            body.append(b"Path=" + v)
        for _ in range(rng.choice((1, 1, 1, 2, 0))):
            if rng.random() < 0.6:
                dv = "%04d-%02d-%02dT%02d:%02d:%02d" % (rng.choice((1, 999, 1000, 2024, 9999)), rng.randint(1, 12),
                                                       rng.randint(1, 31), rng.randint(0, 24), rng.randint(0, 60),
                                                       rng.randint(0, 61))
            else:
                dv = rng.choice(DATE_SPELLINGS)
            body.append(b"DeletionDate=" + dv.encode())
        if rng.random() < 0.3:
            body.append(rng.choice((b"X-Key=1", b"", b"Path", b"DeletionDate", b" Path=/q", b"#Path=/c")))
        rng.shuffle(body)
        raw = nl.join(ls + body) + (nl if rng.random() < 0.8 else b"")
        yield ("structured", raw)


def eval_format(ck, impl, drv, kind, loc, dt):
    got = impl.fmt(loc, dt)
    m = drv.ask({"op": "format", "loc": hx(loc), "date": date_list(dt)})
    want = None if m["r"] is None else unhx(m["r"])
    case = {"kind": "format", "loc": hx(loc), "date": date_list(dt)}
    ck.case(("format", loc, dt), tags=["format:" + kind, "format-result:" + ("refused" if got is None else "written")],
            sample={"loc": repr(loc), "date": dt.isoformat(), "impl": repr(got)})
    if got != want:
        ck.disagreement("Model.Codec.formatTrashinfoWith/Date.fmt vs format_trashinfo",
                        dict(case, impl=None if got is None else hx(got), model=m["r"]))
    if got is None:
        ck.violation("every-name-can-be-written", {"kind": "format", "utf8": False}, case)
        return
    ck.traces += 1
    if not drv.ask({"op": "c03holds", "content": hx(got), "loc": hx(loc)})["r"]:
        ck.violation("conformant", {"kind": "format"}, dict(case, content=hx(got)))
    text = impl.read(got)
    if text is None:
        ck.violation("readable", {"kind": "format"}, dict(case, content=hx(got)))
        return
    st, p = impl.path(text)
    if st != "ok" or p != loc:
        ck.violation("path-roundtrip", {"kind": "format"}, dict(case, content=hx(got), read_back=repr(p)))
    # ... and every reader's own way to the location decodes the value exactly once
    for vol in (b"/", b"/vol"):
        st2, p2 = impl.location(text, vol)
        want2 = loc if loc.startswith(b"/") else os.path.join(vol, loc)
        if st2 != "ok" or p2 != want2:
            ck.violation("path-roundtrip (trash-restore's parse_original_location)", {"kind": "format"},
                         dict(case, content=hx(got), volume=repr(vol), read_back=repr(p2)))
    st, d = impl.date(text)
    if st != "date" or d != dt:
        ck.violation("date-roundtrip", {"kind": "format"}, dict(case, content=hx(got), read_back=repr(d)))


def eval_content(ck, impl, drv, kind, raw):
    text = impl.read(raw)
    mp = drv.ask({"op": "parsePath", "s": hx(raw)})
    md = drv.ask({"op": "parseDate", "s": hx(raw)})
    case = {"kind": "content", "raw": hx(raw)}
    tags = ["content:" + kind]
    if text is None:
        tags.append("read:decode-error")
        ck.case(("content", raw), tags=tags)
        if mp["r"] != "decode-error":
            ck.disagreement("Model.Codec.readText vs open().read()", dict(case, impl="decode-error", model=mp["r"]))
        return
    st, p = impl.path(text)
    tags.append("path:" + st)
    outside = False
    if mp["r"] != st:
        ck.disagreement("Model.Codec.parsePath vs parse_path", dict(case, impl=st, model=mp["r"]))
    elif st == "ok":
        if mp["lossy"]:
            outside = True
            tags.append("path:lossy(outside-domain)")
        elif unhx(mp["path"]) != p:
            ck.disagreement("Model.Codec.unquote vs urllib.parse.unquote",
                            dict(case, impl=hx(p), model=mp["path"]))
    dline = [l for l in text.split("\n") if l.startswith("DeletionDate=")]
    if dline and any(ord(ch) > 127 for ch in dline[0]):
        tags.append("date:non-ascii(outside-domain)")
    else:
        st, d = impl.date(text)
        tags.append("date:" + st)
        if st != md["r"]:
            ck.disagreement("Model.Date.parseDate vs ParseTrashInfo", dict(case, impl=st, model=md["r"]))
        elif st == "date":
            if date_list(d) != md["date"]:
                ck.disagreement("Model.Date.parseDate vs ParseTrashInfo", dict(case, impl=str(d), model=md["date"]))
            if str(d).encode() != unhx(md["str"]) or impl.maybe(text) != d:
                ck.disagreement("Model.Date.str vs str(datetime)", dict(case, impl=str(d), model=md["str"]))
        pd = impl.parse_deletion_date(text)
        if (pd is None) != (st != "date"):
            ck.disagreement("parse_deletion_date vs ParseTrashInfo", dict(case, impl=repr(pd)))
    ck.case(("content", raw), tags=tags, nontrivial=not outside,
            sample={"raw": repr(raw), "path": mp, "date": md})
    ck.traces += 1


def fall_through_world(seed, i):
    from ..model import W, put_argv
    from ..runner import task_rng
    from ..sandbox import MODEL_ROOT as R
    rng = task_rng("C03ft", seed, i)
    w = W()
    uid = rng.choice([0, 1000])
    home = w.dir(R + b"/home/" + rng.choice([b"u", b"a b", b"caf\xc3\xa9"]))
    env = {"HOME": home}
    data = home + b"/.local/share"
    if rng.random() < 0.4:
        data = home + rng.choice([b"/xdg data", b"/x%y"])
        env["XDG_DATA_HOME"] = data
    t = data + b"/Trash"
    if rng.random() < 0.7:
        w.dir(t, 0o700)
        w.dir(t + b"/files", 0o700)
        w.dir(t + b"/info", 0o700)
    else:
        w.dir(data)
    w.file(data + b"/other app/state", b"kept together with the directory")
    if rng.random() < 0.5:
        w.dir(R + b"/.Trash", 0o1777)
    # the argument: the data directory (or an ancestor of it below $HOME), spelled absolutely or from the home directory
    target = rng.choice([data, data, os.path.dirname(data)] if os.path.dirname(data) != home else [data])
    cwd = rng.choice([home, R])
    arg = target if cwd != home or rng.random() < 0.5 else os.path.relpath(target, home)
    args = [arg] + ([home + b"/plain"] if rng.random() < 0.5 else [])
    if len(args) > 1:
        w.file(home + b"/plain", b"an ordinary second argument")
    return w.world(env=env, uid=uid, cwd=cwd, cmd="put", opts={}, args=args, argv=put_argv({}, args), stdin=None,
                   randints=[rng.randint(0, 65535) for _ in range(16)],
                   meta=[{"class": "entry", "kind": "tree", "spelling": "x", "entry": target}] +
                        ([{"class": "entry", "kind": "file", "spelling": "abs", "entry": home + b"/plain"}] if len(args) > 1 else []))


ZONES = [b"AEST-10AEDT,M10.1.0,M4.1.0/3", b"CET-1CEST,M3.5.0,M10.5.0/3", b"XST-10XDT,M12.1.0,M2.1.0", b"YST8YDT,M6.1.0,M8.1.0",
         b"EST5EDT,M3.2.0,M11.1.0", b"IST-5:30", b"NZST-12NZDT,M9.5.0,M4.1.0/3", b"UTC0", b"ZST3ZDT,M1.1.0,M7.1.0", b"WST-8WDT,M7.1.0,M12.5.0"]


def zone_task(task):
    """the READER's time zone: a DeletionDate is a wall-clock reading, written as text; every reader hands back exactly the
    reading that was written - also when it falls into an hour (or a day) that does not exist in the zone the reader
    happens to run in (written under another zone, or by a clock that was set by hand), or exists twice.  Every day of two
    years at four times around the usual change-over hours, in the reader's own zone set through TZ."""
    import datetime
    import time
    zone = ZONES[task["i"] % len(ZONES)]
    os.environ["TZ"] = os.fsdecode(zone)
    time.tzset()
    impl = Impl()
    bad, n = [], 0
    try:
        day = datetime.date(2025 + task["i"] % 3, 1, 1)
        for _ in range(730):
            for hh, mm in ((0, 30), (1, 59), (2, 30), (3, 0), (23, 59)):
                written = datetime.datetime(day.year, day.month, day.day, hh, mm, 7)
                text = "[Trash Info]\nPath=/x\nDeletionDate=%s\n" % written.strftime("%Y-%m-%dT%H:%M:%S")
                n += 1
                got = [impl.date(text), ("date", impl.parse_deletion_date(text)), ("date", impl.maybe(text))]
                if any(g != ("date", written) for g in got):
                    bad.append({"zone": os.fsdecode(zone), "written": str(written), "read_back": [str(g[1]) for g in got],
                                "directed": {"fn": "zone_task", "task": {"seed": task["seed"], "i": task["i"]}}})
                    break
            if bad:
                break
            day += datetime.timedelta(days=1)
    finally:
        impl.close()
    return {"zone": os.fsdecode(zone), "n": n, "bad": bad}


def real_clock_world(seed, i):
    from ..runner import task_rng
    from ..worldgen import gen_put_world
    rng = task_rng("C03clock", seed, i)
    world = gen_put_world(rng, "single")
    world["opts"] = dict(world["opts"], realPutClock=True)
    world["env"] = dict(world["env"], TZ=ZONES[i % len(ZONES)])
    return world


def run(tier, seed):
    ck = Check("C03", tier, seed)
    info = audit("C03")
    impl = Impl()
    drv = Driver()
    try:
        corpus = os.path.join(os.path.dirname(__file__), "..", "..", "corpus", "C03")
        if os.path.isdir(corpus):
            for f in sorted(os.listdir(corpus)):
                replay_case(ck, impl, drv, json.load(open(os.path.join(corpus, f))))
        for i, (kind, loc) in enumerate(gen_locs(ck, tier)):
            dt = BOUNDARY_DATES[i % len(BOUNDARY_DATES)]
            eval_format(ck, impl, drv, kind, loc, dt)
        for dt in BOUNDARY_DATES:
            eval_format(ck, impl, drv, "date", b"/x", dt)
        for kind, raw in gen_contents(ck, tier):
            eval_content(ck, impl, drv, kind, raw)
        # world level: what the real trash-put writes (conformance of every new info file, DeletionDate = time of trashing
        # of that entry under the sandbox's moving clock)
        from ..putfamily import absorb, eval_task
        from ..runner import run_tasks
        cfg = {"oracles": ("C03w",), "violations": ("C03w",), "profile": "mixed", "states": False}
        nw = 250 if tier == "quick" else 4000
        absorb(ck, "C03", run_tasks(eval_task, [{"pid": "C03w", "seed": seed, "i": i, "cfg": cfg} for i in range(nw)]), cfg, "Model.Put")
        # fall-through between two KINDS of trash directory in one run, without any fault: a directory that contains the home
        # trash cannot be moved into it (the info is written, the move refused, the info removed), the volume's
        # .Trash-$uid takes over - and records the location its own way (relative to $topdir)
        absorb(ck, "C03", run_tasks(eval_task, [{"pid": "C03w", "seed": seed, "i": -1, "cfg": cfg, "world": fall_through_world(seed, i)}
                                                  for i in range(12 if tier == "quick" else 120)]), cfg, "Model.Put")
        # the program's own clock (not the sandbox's): in time zones with daylight-saving rules - some of them on standard
        # time today, whatever today is - the date written is the local time of the run
        absorb(ck, "C03", run_tasks(eval_task, [{"pid": "C03w", "seed": seed, "i": -1, "cfg": cfg, "world": real_clock_world(seed, i)}
                                                  for i in range(10 if tier == "quick" else 60)]), cfg, "Model.Put")
        for r in run_tasks(zone_task, [{"seed": seed, "i": i} for i in range(len(ZONES) if tier == "quick" else 3 * len(ZONES))]):
            if "machinery" in r:
                from ..lean import MachineryError
                raise MachineryError(r["machinery"])
            ck.case(("reader-zone", r["zone"], r["n"]), tags=["reader-zone"])
            for b in r["bad"]:
                ck.violation("date-read-back-is-date-written", {"oracle": "C03-reader-zone"}, b)
        ck.exhaustive = False
        ck.extra["exhaustive_subdomains"] = ["every byte 1-255 except '/' alone and inside a name",
                                             "ordered pairs of 40 interesting bytes", "64 boundary dates"]
    finally:
        impl.close()
        drv.close()
    return ck.finish(info, LEVEL_NOTE, RULE,
                     assumptions=["locale encoding UTF-8", "CPython 3.12.1 stdlib behaviour"])


def replay_case(ck, impl, drv, case):
    case = case.get("replay", case)
    if case["kind"] == "format":
        eval_format(ck, impl, drv, "replay", unhx(case["loc"]), datetime.datetime(*case["date"]))
    else:
        eval_content(ck, impl, drv, "replay", unhx(case["raw"]))


def replay(path):
    import sys
    from ..core import replay_directed
    rc = replay_directed(sys.modules[__name__], "C03", path)
    if rc is not None:
        return rc
    ck = Check("C03", "quick", 0)
    impl = Impl()
    drv = Driver()
    try:
        obj = json.load(open(path))
        cases = obj.get("disagreeing_cases") or [obj]
        for c in cases:
            replay_case(ck, impl, drv, c)
    finally:
        impl.close()
        drv.close()
    for rec, rp in ck.violations:
        print("VIOLATION property=C03 replay=%s" % path)
        print(json.dumps(rec))
    for comp, c in ck.disagreements:
        print("DISAGREEMENT %s %s" % (comp, json.dumps(c)))
    return 1 if (ck.violations or ck.disagreements) else 0
