"""C17 — under file-system errors trash-put terminates, falls back, and reports honestly.

Exhaustive single faults: every mutating call of a fault-free run (by kind and occurrence) x 14
errnos, for home / .Trash/$uid / .Trash-$uid / --trash-dir candidates; persistent faults per
(kind, errno); stat-class faults (oracle only); pairs of faults in the thorough tier."""
import itertools
import json

from .. import putcheck
from ..core import Check, audit
from ..putfamily import signature, world_summary, world_tags
from ..runner import driver, jsonable, run_tasks, task_rng, unjsonable
from ..sandbox import run_world
from ..worldgen import gen_fault_world

ERRNOS = ["EACCES", "EPERM", "EROFS", "ENOSPC", "EDQUOT", "EIO", "ENAMETOOLONG", "EEXIST", "ENOENT", "ENOTDIR", "EXDEV",
          "EBUSY", "EMLINK", "ELOOP"]
MODELLED_KINDS = ("mkdir", "createExcl", "write", "close", "unlink")
LEVEL_NOTE = ("theorems quantify over every fault oracle on the calls of the resolved-layer core (Model/Put.lean, "
              "Model/PyLib.lean); faults on read-only calls (stat/lstat/access/readlink/listdir) and faults that send "
              "shutil.move into its copy fallback are checked on the implementation against the Spec only; C17Single: put_single_fault_conserves - under ANY single fault (every errno, the rename included, whose copy fallback then runs fault-free) the entry ends trashed node for node or everything is untouched and the failure is a persist error; termination under every oracle (run_bounded_uniformly); the two-fault findings as kernel-checked witnesses")
RULE = ("for each seeded world (one argument; home, .Trash/uid, .Trash-uid after an insecure .Trash, --trash-dir; "
        "file/tree/symlink/empty; with and without a name collision): every (kind, occurrence) of a mutating call of the "
        "fault-free run x 14 errnos, worlds cycling through every kind of first candidate, a fixed share with -f / -v, persistent faults per (kind, errno), stat-class faults at sampled positions; thorough "
        "adds all pairs; a case is distinct by (world, fault plan) and non-trivial when the fault was actually delivered; kernel-made write faults (RLIMIT_FSIZE 0, and 20: a short write first) for short paths and for Path lines of about 9 KiB - reported, argument untouched, no info file left")


def plans_for(trace, reads, tier, rng, read_log=()):
    seen, plans = set(), []
    counts = {}
    for rec in trace:
        k = rec[0]
        n = counts.get(k, 0)
        counts[k] = n + 1
        if (k, n) in seen:
            continue
        seen.add((k, n))
        for e in ERRNOS:
            plans.append({"faults": [{"op": k, "nth": n, "errno": e}]})
    for k in counts:
        for e in ("EACCES", "EROFS", "ENOSPC", "EIO", "ENAMETOOLONG"):   # EEXIST is the retry signal: "every name is taken for ever" is not a file-system error
            plans.append({"faults": [{"op": k, "persistent": True, "errno": e}]})
    idxs = list(range(reads)) if tier == "thorough" or reads <= 12 else sorted(rng.sample(range(reads), 12))
    # always: the probes inside the trash directories (is this name taken? does the payload exist?) - a probe that fails
    # must not be read as "free"
    probes = [i for i, (_k, ph) in enumerate(read_log) if b"/files/" in bytes.fromhex(ph) or b"/info/" in bytes.fromhex(ph)]
    idxs = sorted(set(idxs) | set(probes[:40]))
    for i in idxs:
        for e in ("EACCES", "EIO", "ELOOP"):      # (not ENOENT: "no such entry" for an entry that is there is a lie no program can see through)
            plans.append({"read_faults": [{"index": i, "errno": e}]})
    for kind in ("stat", "lstat"):
        plans.append({"read_faults": [{"kind": kind, "persistent": True, "errno": "EACCES"}]})
    # the diagnostics themselves cannot be written (stderr on a full disk, a closed pipe): from the n-th write on
    for nth in range(0, 6):
        for e in ("ENOSPC", "EPIPE"):
            plans.append({"stderr_fault": {"nth": nth, "errno": e}})
        plans.append({"stderr_fault": {"nth": nth, "errno": "EPIPE", "pipe": True}})      # a real pipe without reader
    plans.append({"stderr_fault": {"nth": 0, "errno": "EPIPE", "closed": True}})           # 2>&-: no stderr at all
    if tier == "thorough":
        singles = [(k, n) for (k, n) in seen]
        extra = [("unlink", 0), ("rmdir", 0), ("createTrunc", 0), ("symlink", 0)]
        for (a, b) in itertools.combinations(singles + extra, 2):
            for e1, e2 in (("EACCES", "EACCES"), ("ENOSPC", "EIO"), ("EXDEV", "ENOSPC")):
                plans.append({"faults": [{"op": a[0], "nth": a[1], "errno": e1}, {"op": b[0], "nth": b[1], "errno": e2}]})
    return plans


def fault_sig(plan, world=None):
    fs = plan.get("faults", [])
    return {"force": bool(world) and world.get("opts", {}).get("mode") == "force",
            "where": (world or {}).get("meta", [{}])[0].get("where"),
            "fault_kinds": sorted({f["op"] for f in fs}), "n_faults": len(fs),
            "rename_faulted": any(f["op"] == "rename" for f in fs), "unlink_faulted": any(f["op"] == "unlink" for f in fs),
            "read_fault": bool(plan.get("read_faults")), "persistent": any(f.get("persistent") for f in fs)}


def eval_task(task):
    world, plan = task["world"], task["plan"]
    faults = plan.get("faults", [])
    modelled = bool(faults) and all(f["op"] in MODELLED_KINDS for f in faults)
    impl_plan = dict(plan)
    impl_plan["budget"] = 3000
    r = putcheck.evaluate(world, driver(), plan=impl_plan, model_faults=faults if modelled else None,
                          oracles=("C01", "C16", "C04", "C03w"), want_states=False)   # C04: what was in the trash before is still whole; C03w: whatever candidate takes over, the info it writes is the one the spec wants there
    delivered = any(rec[2] not in ("ok",) for rec in r["trace"]) or bool(plan.get("read_faults")) or bool(plan.get("stderr_fault"))
    out = {"key": (tuple(world["args"]), len(world["nodes"]), json.dumps(plan, sort_keys=True)),
           "tags": ["where:" + world["meta"][0]["where"], "kind:" + world["meta"][0]["kind"]] +
                   ["fault:%s:%s" % (f["op"], f["errno"]) for f in faults] +
                   ["read-fault:%s" % f["errno"] for f in plan.get("read_faults", [])] +
                   ["exit:%s" % r["obs_exit"], "modelled:%s" % modelled] + r["tags"],
           "summary": dict(world_summary(world), plan=plan), "nontrivial": delivered,
           "mismatch": r["mismatch"] if modelled else [], "bad": []}
    if r["obs_exit"] == "budget":
        out["bad"].append({"oracle": "terminates", "verdict": "did-not-terminate-within-budget",
                           "sig": dict(fault_sig(plan, world), oracle="terminates")})
    for name, v in r["oracle"].items():
        if plan.get("stderr_fault") and name not in ("C01", "C04"):
            continue                      # (exit status and diagnostics mean nothing when stderr is gone)
        if not v["ok"]:
            out["bad"].append({"oracle": name, "verdict": v["verdict"],
                               "sig": dict(fault_sig(plan, world), oracle=name, verdict=v["verdict"].split(" ")[0])})
    if r["exc"] and not r["mismatch"] and not plan.get("stderr_fault"):
        out["tags"].append("uncaught:" + str(r["exc"]))
        out["bad"].append({"oracle": "no-traceback", "verdict": "uncaught " + str(r["exc"]),
                           "sig": dict(fault_sig(plan, world), oracle="no-traceback", exc=r["exc"])})
    if out["mismatch"] or out["bad"]:
        out["world"] = jsonable(world)
        out["plan"] = plan
        out["stderr"] = repr(r["stderr"][-1200:])
    return out


def fsize_task(task):
    """a write fault made by the kernel (RLIMIT_FSIZE = 0: no regular file may grow), so that it reaches the program
    whatever routine it writes the .trashinfo with - for ordinary paths and for paths whose percent-encoded Path line is
    longer than any stream buffer (12 components of 250 bytes of non-ASCII text: about 9 KiB encoded).  Judged on the real
    run alone: the failure is reported (non-zero exit), the argument is untouched, and no info file - empty, partial or
    whole - is left behind in any trash directory."""
    from ..model import W, put_argv, snap_to_state
    from ..sandbox import MODEL_ROOT as R
    i = task["i"]
    rng = task_rng("C17fsize", task["seed"], i)
    w = W()
    home = w.dir(R + b"/home/u")
    t = home + b"/.local/share/Trash"
    if i % 2 == 0:
        w.dir(t, 0o700)
        w.dir(t + b"/files", 0o700)
        w.dir(t + b"/info", 0o700)
        w.file(t + b"/info/older.trashinfo", b"[Trash Info]\nPath=/old\nDeletionDate=2020-01-01T00:00:00\n", 0o600)
        w.file(t + b"/files/older", b"older")
    d = home + b"/w"
    if i % 3 != 1:
        comp = ("\u00e9" * 125).encode()
        for k in range(12):
            d += b"/" + comp[:-2] + b"%02d" % k
    w.dir(d)
    name = rng.choice([b"victim", b"a b", "caf\u00e9".encode()])
    kind = rng.choice(["file", "tree"])
    if kind == "file":
        w.file(d + b"/" + name, b"keep me whole")
    else:
        w.file(d + b"/" + name + b"/inner", b"keep me whole")
    cwd = d if i % 4 == 3 else home
    arg = d + b"/" + name if cwd != d else name
    opts = {}
    if i % 5 == 4:
        opts["trashDir"] = home + b"/ct"
    world = w.world(env={"HOME": home}, uid=1000, cwd=cwd, cmd="put", args=[arg], opts=opts, argv=put_argv(opts, [arg]), stdin=None,
                    randints=[1, 2, 3], meta=[{"class": "entry", "kind": kind, "spelling": "abs", "entry": d + b"/" + name, "where": "home"}])
    # (0: every write fails at once; 20: the first write is a SHORT write - 20 bytes taken, no error - and only the next one fails)
    lim = 20 if (i // 2) % 3 == 2 else 0
    o = run_world(world, {"fsize": lim})
    before, after = snap_to_state(o["before"]), snap_to_state(o["after"])
    problems = []
    if o.get("exit") in (0, None):
        problems.append("exit status %r although the info file could not be written" % (o.get("exit"),))
    for q in before:
        if after.get(q) != before[q] and not (before[q][0] == "d" and q in after and after[q][0] == "d"):
            problems.append("%r changed or went away" % q[-60:])
    for q in after:
        if q not in before and after[q][0] != "d":
            problems.append("left behind: %r (%d bytes)" % (q[-60:], len(after[q][1]) if isinstance(after[q][1], bytes) else -1))
    return {"key": (i, kind, len(d), lim), "long": len(d) > 1000,
            "bad": [{"verdict": "; ".join(problems[:5]), "stderr": repr(o["stderr"][-300:]), "exc": o.get("exc"), "world": jsonable(world),
                     "directed": {"fn": "fsize_task", "task": {"seed": task["seed"], "i": task["i"]}}}] if problems else []}


def base_task(task):
    # every kind of first candidate and, with each of them, -f (which silences nonexistent arguments only) within any 18 worlds
    i = task["i"] + task["seed"]
    world = gen_fault_world(task_rng("C17", task["seed"], task["i"]),
                            where=["home", "top", "alt", "alt-after-insecure-top", "custom", "fallback"][i % 6], force=(i % 3 == 1))
    obs = run_world(world, {"log_reads": True})
    # second level: the calls issued once the rename was refused (shutil.move's copy + delete fallback)
    obs2 = run_world(world, {"faults": [{"op": "rename", "nth": 0, "errno": "EXDEV"}]})
    after = []
    seen_rename = False
    counts = {}
    for rec in obs2["trace"]:
        k = rec[0]
        n = counts.get(k, 0)
        counts[k] = n + 1
        if seen_rename:
            after.append((k, n))
        if k == "rename":
            seen_rename = True
    return {"world": world, "trace": obs["trace"], "reads": obs["reads"], "exit": obs["exit"], "after_rename_fault": after,
            "read_log": obs.get("read_log", [])}


def second_level_plans(after, tier):
    errs = ("EACCES", "ENOSPC", "EIO") if tier == "quick" else ERRNOS
    plans = []
    for (k, n) in sorted(set(after)):
        for e in errs:
            plans.append({"faults": [{"op": "rename", "nth": 0, "errno": "EXDEV"}, {"op": k, "nth": n, "errno": e}]})
    return plans


def run(tier, seed):
    ck = Check("C17", tier, seed)
    info = audit("C17")
    nworlds = 8 if tier == "quick" else 60
    bases = run_tasks(base_task, [{"seed": seed, "i": i} for i in range(nworlds)])
    tasks = []
    for b in bases:
        if "machinery" in b:
            from ..lean import MachineryError
            raise MachineryError(b["machinery"])
        for plan in plans_for(b["trace"], b["reads"], tier, ck.rng, b.get("read_log", [])) + second_level_plans(b["after_rename_fault"], tier):
            tasks.append({"world": b["world"], "plan": plan})
    results = run_tasks(eval_task, tasks)
    from ..lean import MachineryError
    for r in results:
        if "machinery" in r:
            raise MachineryError(r["machinery"])
        ck.case(r["key"], nontrivial=r["nontrivial"], tags=r["tags"], sample=r["summary"])
        ck.traces += 1
        for m in r["mismatch"]:
            ck.disagreement("Model.Put under faults vs trashcli.put (%s)" % m["what"],
                            {"world": r.get("world"), "plan": r.get("plan"), "difference": m, "stderr": r.get("stderr")})
        for b in r["bad"]:
            ck.violation(b["verdict"], b["sig"], {"world": r.get("world"), "plan": r.get("plan"), "oracle": b["oracle"],
                                                  "verdict": b["verdict"], "stderr": r.get("stderr")})
    for r in run_tasks(fsize_task, [{"seed": seed, "i": i} for i in range(12 if tier == "quick" else 60)]):
        if "machinery" in r:
            raise MachineryError(r["machinery"])
        ck.case(("fsize", r["key"]), tags=["kernel-write-fault:" + ("long-path" if r["long"] else "short-path")])
        for b in r["bad"]:
            ck.violation("kernel-write-fault-leaves-nothing-behind", {"oracle": "C17-fsize"}, b)
    ck.exhaustive = False
    ck.extra["exhaustive_subdomains"] = ["every (kind, occurrence) of a mutating call of each base run x %d errnos" % len(ERRNOS)]
    return ck.finish(info, LEVEL_NOTE, RULE)


def replay(path):
    import sys
    from ..core import replay_directed
    rc = replay_directed(sys.modules[__name__], "C17", path)
    if rc is not None:
        return rc
    obj = unjsonable(json.load(open(path)))
    cases = []
    if isinstance(obj.get("replay"), dict) and obj["replay"].get("world"):
        cases.append(obj["replay"])
    cases += [c for c in obj.get("disagreeing_cases", []) if c and c.get("world")]
    rc = 0
    for c in cases:
        r = eval_task({"world": c["world"], "plan": c["plan"]})
        print(json.dumps({"mismatch": r["mismatch"], "bad": r["bad"], "summary": r["summary"]}, indent=1, default=repr))
        if r["mismatch"] or r["bad"]:
            print("VIOLATION property=C17 replay=%s" % path)
            rc = 1
    return rc
