"""C01 — trash-put conserves data: each argument ends fully trashed or untouched."""
from ..putfamily import replay_family, run_family

CFG = {"oracles": ("C01", "C04"), "violations": ("C01",), "profile": "mixed", "states": False}
LEVEL_NOTE = ("theorems are about the resolved-layer core of Model/Put.lean run on Model/FS.lean (kernel semantics of "
              "rename/mkdir/O_EXCL/unlink, symlink resolution, virtual mount table: modelled, validated by the "
              "correspondence); fault-free, single process; shutil/os routines as encoded in Model/PyLib.lean")
RULE = ("seeded random worlds: 1-4 arguments of kinds file/empty/tree/symlink(file,dir,dangling,absolute) x 11 spellings "
        "(relative, absolute, './', trailing slashes, 'd/../x', '//abs', through a symlinked parent, 'link/../x'), dot "
        "entries, missing paths, mount points; options -f/-i(+replies)/--trash-dir/--home-fallback; 1-5 volumes with "
        "every state of .Trash and .Trash-uid and pre-populated trash directories; a world is non-trivial when the run "
        "issued a mutating call or printed a diagnostic; distinct by (args, options, cwd, mounts, size)")


def run(tier, seed):
    return run_family("C01", tier, seed, CFG, 400, 6000, LEVEL_NOTE, RULE)


def replay(path):
    return replay_family("C01", path, CFG)
