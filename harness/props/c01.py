"""C01 — trash-put conserves data: each argument ends fully trashed or untouched."""
import json
import os

from ..core import Check, audit
from ..lean import VERIF
from ..putfamily import absorb, eval_task, replay_family, search_failing_input
from ..runner import run_tasks, unjsonable

CFG = {"oracles": ("C01", "C04"), "violations": ("C01",), "profile": "mixed", "states": False}
LEVEL_NOTE = ("theorems are about the resolved-layer core of Model/Put.lean run on Model/FS.lean (kernel semantics of "
              "rename/mkdir/O_EXCL/unlink, symlink resolution, virtual mount table: modelled, validated by the "
              "correspondence); fault-free, single process; shutil/os routines as encoded in Model/PyLib.lean. C01Seq: whole runs with ANY "
              "number of everyday arguments: each gone from its place and whole under its own files/<name> as it was initially, its "
              "info present, names distinct, every other path unchanged (directory mtimes aside); inert arguments at any position change nothing")
RULE = ("seeded random worlds: 1-4 arguments of kinds file/empty/tree/symlink(file,dir,dangling,absolute) x 11 spellings "
        "(relative, absolute, './', trailing slashes, 'd/../x', '//abs', through a symlinked parent, 'link/../x'), dot "
        "entries, missing paths, mount points (some read-only), read-only and setgid directories, named pipes; home directories whose names hold regular-expression metacharacters, or are "
        "called 'info'; options -f/-i(+replies)/--trash-dir/--home-fallback; 1-5 volumes with "
        "every state of .Trash and .Trash-uid and pre-populated trash directories; a world is non-trivial when the run "
        "issued a mutating call or printed a diagnostic; distinct by (args, options, cwd, mounts, size); plus 2-3 real "
        "trash-put processes interleaved call by call under seeded schedules (quick 80, thorough 2000 runs), oracle C01 on "
        "the final state")


def run(tier, seed):
    ck = Check("C01", tier, seed)
    info = audit("C01")
    n = 400 if tier == "quick" else 6000
    tasks = []
    corpus = os.path.join(VERIF, "corpus", "C01")
    if os.path.isdir(corpus):
        for f in sorted(os.listdir(corpus)):
            w = unjsonable(json.load(open(os.path.join(corpus, f))))
            tasks.append({"pid": "C01", "seed": seed, "i": -1, "cfg": CFG, "world": w.get("world", w)})
    tasks += [{"pid": "C01", "seed": seed, "i": i, "cfg": CFG} for i in range(n)]
    # crowded trash directories: same names many times over, names of 246-255 bytes (the info name must be shortened) with
    # payloads lacking an info file at the shortened names
    crowded = dict(CFG, profile="collide")
    tasks += [{"pid": "C01c", "seed": seed, "i": i, "cfg": crowded} for i in range(n // 5)]
    # -v / -vv with the diagnostics going into a pipe whose reader went away after n lines (`trash-put -vv ... 2>&1 | head -n`),
    # or nowhere at all (2>&-): however the run ends, each argument is fully trashed or untouched
    verbose = dict(CFG, profile="single")
    for i in range(n // 10):
        for nth, kind in ((i % 4, {"pipe": True}), (0, {"closed": True})):
            tasks.append({"pid": "C01v", "seed": seed, "i": i, "cfg": verbose, "force_verbose": 1 + i % 2,
                          "plan": {"stderr_fault": dict({"nth": nth, "errno": "EPIPE"}, **kind)}})
    absorb(ck, "C01", run_tasks(eval_task, tasks), CFG, "Model.Put")
    # conservation must also hold when several trash-put processes share a trash directory
    from . import parworlds
    parworlds.add_concurrent(ck, tier, seed + 101, oracles=("C01", "no-traceback", "exit", "confinement"), n_quick=80, n_thorough=2000)
    search_failing_input(ck, "C01", seed, CFG, n, "Model.Put")
    return ck.finish(info, LEVEL_NOTE, RULE)


def replay(path):
    from . import parworlds
    rc = parworlds.replay_concurrent("C01", path, oracles=("C01", "no-traceback", "exit", "confinement"))
    return rc if rc is not None else replay_family("C01", path, CFG)
