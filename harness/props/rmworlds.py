"""world-level part of C12: which pairs a real trash-rm removes"""
from ..readfamily import add_worlds

CFG = {"cmds": ["rm"], "oracles": ("effects",), "violations": ("effects",), "profile": "mixed", "states": False}


def add_world_level(ck, tier, seed):
    add_worlds(ck, "C12", seed, CFG, 150 if tier == "quick" else 2500)
    ck.extra["world_level"] = "trash-rm runs on populated trash dirs; expectation: Python fnmatch on the generator's ground truth"
