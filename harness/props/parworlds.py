"""Concurrent part of C04: 2-3 real trash-put processes on one sandbox, one wrapped call at a time
under a seeded schedule; oracle on the final state: every pre-existing pair intact (C04), every
successful process owns a distinct complete pair whose payload is its entry, nothing lost (C01)."""
import os

from ..lean import MachineryError, hx
from ..model import W, put_argv, snapshot_rows
from ..putcheck import put_facts
from ..runner import driver, jsonable, run_tasks, task_rng
from ..sandbox import MODEL_ROOT as R, run_concurrent
from ..worldgen import make_entry, populate_trash


def judge(world, procs, sched, drv):
    """run the processes under the schedule on the real code; oracles C01 / C04 on the final state"""
    obs = run_concurrent(world, procs, sched, facts=put_facts)
    mounts = [hx(x) for x in world["mounts"]]
    base = {"op": "oracle", "before": snapshot_rows(obs["before"]), "after": snapshot_rows(obs["after"]), "mounts": mounts}
    dirs = sorted({d["dir"] for f in obs["facts"] for d in f["dirs"]})
    items = []
    bad_early = []
    for f, pr, pw in zip(obs["facts"], obs["procs"], procs):
        it = f["items"][0]
        named = (b"'" + it["arg"] + b"'") in pr["stderr"]
        if pw["meta"][0].get("contains_trash_dir"):
            # (its entry holds the trash directory itself: the move is refused, the subtree changes through the others)
            if pr["exit"] == 0:
                bad_early.append({"oracle": "C01", "verdict": "a directory was 'trashed' into a trash directory inside itself"})
            items.append({"entry": None, "reported": True})
            continue
        items.append({"entry": hx(it["entry"]) if it["entry"] is not None else None, "reported": bool(named and pr["exit"] != 0)})
    bad = list(bad_early)
    r1 = drv.ask(dict(base, prop="C01", dirs=[hx(d) for d in dirs], items=items))
    r4 = drv.ask(dict(base, prop="C04", dirs=[hx(d) for d in dirs]))
    for nm, r in (("C01", r1), ("C04", r4)):
        if not r["ok"]:
            bad.append({"oracle": nm, "verdict": r["verdict"]})
    # C07 under concurrency: every entry of these worlds is trashable and the first usable candidate of each process stays
    # usable whatever the other processes do (they only create it, or add to it): each process succeeds, into that directory
    from ..model import snap_to_state
    st0, st1 = snap_to_state(obs["before"]), snap_to_state(obs["after"])
    expected = []
    def vol_of(p_):
        return max((m_ for m_ in world["mounts"] if p_ == m_ or p_.startswith(m_.rstrip(b"/") + b"/")), key=len, default=R)
    for f in obs["facts"]:
        ent = f["items"][0]["entry"]
        if ent is None:
            expected.append(None)
            continue
        custom = [d for d in f["dirs"] if d["kind"] == "custom"]
        if custom:
            expected.append(custom[0]["dir"])
            continue
        ev = vol_of(ent)
        usable = [d for d in f["dirs"] if d.get("parentOk") and not d.get("blocked") and
                  ((d["kind"] == "home" and vol_of(d["dir"]) == ev) or (d["kind"] in ("top", "alt") and d["base"] == ev and vol_of(f["dirs"][0]["dir"]) != ev))]
        expected.append(usable[0]["dir"] if usable else None)
    new_infos = [p for p in st1 if p not in st0 and p.endswith(b".trashinfo") and b"/info/" in p]
    for k, (pr, exp) in enumerate(zip(obs["procs"], expected)):
        if procs[k]["meta"][0].get("contains_trash_dir"):
            continue
        if exp is not None and pr["exit"] != 0 and not pr["exc"]:
            bad.append({"oracle": "C07", "verdict": "process %d: %r is usable (or can be created) but the entry was not trashed: %r"
                                                    % (k, exp, pr["stderr"][-300:])})
    if all(e is not None for e in expected):
        stray = [p for p in new_infos if not any(p.startswith(e + b"/info/") for e in expected)]
        if stray:
            bad.append({"oracle": "C07", "verdict": "entries trashed outside the prescribed directories %r: %r" % (sorted(set(expected)), stray[:3])})
    for k, pr in enumerate(obs["procs"]):
        if pr["exc"]:
            bad.append({"oracle": "no-traceback", "verdict": "process %d: uncaught %s" % (k, pr["exc"])})
        if pr["exit"] not in (0, 74):
            bad.append({"oracle": "exit", "verdict": "process %d: exit %r" % (k, pr["exit"])})
        if pr["escapes"]:
            bad.append({"oracle": "confinement", "verdict": "escape"})
    return obs, bad


def followups(world, procs, obs, what):
    """after the interleaved puts: `list` - trash-list shows one line per entry a process reported as trashed (C09);
    `restore` - each of them comes back from the trash, same node at the same place (C02)"""
    from ..model import cmd_argv, snap_to_state, world_from_state
    from ..sandbox import run_world
    problems = []
    state = snap_to_state(obs["after"])
    before = snap_to_state(obs["before"])
    done = [(pr, w) for pr, w in zip(obs["procs"], procs) if pr["exit"] == 0]
    entries = [w["meta"][0]["entry"] for _pr, w in done]
    td = procs[0]["opts"].get("trashDir")
    if what == "list":
        wl = world_from_state(world, state, cmd="list", cwd=world["cwd"], opts={"userDirs": [td]} if td else {}, args=[], stdin=None)
        wl["argv"] = cmd_argv(wl)
        o = run_world(wl, {})
        for e in entries:
            n = sum(1 for l in o["stdout"].split(b"\n") if l.endswith(b" " + e))
            if n != 1:
                problems.append({"oracle": "C09-listing", "verdict": "after interleaved puts trash-list shows %d line(s) for %r, trashed by a "
                                                                    "process that reported success" % (n, e)})
    else:
        for e in entries:
            wr = world_from_state(world, state, cmd="restore", cwd=world["cwd"],
                                  opts=dict({"path": e, "sort": "path"}, **({"trashDir": td} if td else {})), args=[], stdin=b"0\n")
            wr["argv"] = cmd_argv(wr)
            o = run_world(wr, {})
            after = snap_to_state(o["after"])
            want, got = before.get(e), after.get(e)
            same = want is not None and got is not None and want[0] == got[0] and want[1] == got[1] and want[4] == got[4]
            if not same:
                problems.append({"oracle": "C02-restore", "verdict": "after interleaved puts %r cannot be restored (trash-restore %r, reply 0: "
                                                                    "exit %r, %r)" % (e, e, o["exit"], o["stdout"][-200:])})
            state = after
    return problems


def replay_concurrent(pid, path, oracles=None):
    """re-run the recorded processes under the recorded schedule; None when the file is not a concurrent replay"""
    import json
    from ..runner import unjsonable
    obj = unjsonable(json.load(open(path)))
    rp = obj.get("replay") if isinstance(obj.get("replay"), dict) else None
    if not rp or not rp.get("procs") or rp.get("schedule") is None:
        return None
    obs, bad = judge(rp["world"], rp["procs"], list(rp["schedule"]), driver())
    for what in ("list", "restore"):
        if oracles is None or ("C09-listing" if what == "list" else "C02-restore") in oracles:
            bad = bad + followups(rp["world"], rp["procs"], obs, what)
    bad = [b for b in bad if oracles is None or b["oracle"] in oracles]
    print(json.dumps({"executed": obs["executed"], "exits": [p["exit"] for p in obs["procs"]], "bad": bad}, indent=1, default=repr))
    if bad:
        print("VIOLATION property=%s replay=%s" % (pid, path))
        return 1
    return 0


def par_task(task):
    rng = task_rng("C04par", task["seed"], task["i"])
    drv = driver()
    world, procs, scenario, name, nproc = build_world(rng, task.get("scenario"), task.get("nproc"))
    if task.get("preempt_sweep"):
        # ONE preemption, at every position: process 0 runs k steps, then another process runs from start to end, then the
        # rest - the systematic way into the window between two calls of process 0
        bad, steps, runs = [], 0, 0
        other = 1 if nproc > 1 else 0
        for k in range(task["preempt_sweep"]):
            sched = [0] * k + [other] * 2000
            obs, b = judge(world, procs, sched, drv)
            if task.get("follow"):
                b = b + followups(world, procs, obs, task["follow"])
            steps += len(obs["executed"])
            runs += 1
            if b:
                bad = b
                break
            if obs["executed"][:k].count(0) < k:      # process 0 had finished before its k-th step
                break
        out = {"key": ("preempt-sweep", scenario, nproc, name, runs), "tags": ["scenario:" + scenario, "preempt-sweep", "procs:%d" % nproc],
               "bad": bad, "steps": steps, "switches": 2 * runs}
        if bad:
            out["world"], out["procs"], out["schedule"] = jsonable(world), jsonable(procs), obs["executed"]
            out["stderr"] = [repr(p["stderr"][-600:]) for p in obs["procs"]]
        return out
    return random_schedule(task, rng, drv, world, procs, scenario, name, nproc)


def build_world(rng, scenario=None, nproc=None):
    nproc = nproc or rng.choice([2, 2, 2, 3])
    w = W()
    uid = 1000
    home = w.dir(R + b"/home/u")
    scenario = scenario or rng.choice(["first-use", "collision", "collision", "volume", "mixed-kinds", "self-containing", "suffix-twins"])
    where = home
    opts = {}
    if scenario == "volume":
        w.mount(R + b"/vol1")
        where = R + b"/vol1"
        if rng.random() < 0.5:
            w.dir(R + b"/vol1/.Trash", 0o1777)
    name = rng.choice([b"same", b"a b", b"caf\xc3\xa9"])
    if scenario == "self-containing":
        # process 0 trashes the directory that holds the --trash-dir everybody uses: its info file is written, its move
        # refused, its info file removed again - while the others trash entries of the same name into that directory
        opts = {"trashDir": home + b"/dir0/" + name + b"/T"}
    procs = []
    base_name = name
    for k in range(nproc):
        # (suffix-twins: entries called N and N.trashinfo - different info names, different payload names, nothing in common)
        name = base_name + (b".trashinfo" if scenario == "suffix-twins" and k % 2 == 1 else b"")
        d = where + b"/dir%d" % k
        w.dir(d)
        kind = make_entry(rng, w, d, name, rng.choice(["file", "tree", "link-dangling"]) if scenario == "mixed-kinds" else
                          ("tree" if scenario == "self-containing" and (k == 0 or rng.random() < 0.5) else "file"))
        if scenario == "self-containing" and k == 0:
            w.dir(d + b"/" + name + b"/T", 0o700)
            if rng.random() < 0.5:
                w.dir(d + b"/" + name + b"/T/files", 0o700)
                w.dir(d + b"/" + name + b"/T/info", 0o700)
        nodes = w.nodes
        if nodes[d + b"/" + name]["k"] == "f":
            nodes[d + b"/" + name]["data"] = b"payload of process %d" % k
        arg = rng.choice([d + b"/" + name, name])
        cwd = d if arg == name else home
        procs.append({"cwd": cwd, "cmd": "put", "args": [arg], "opts": opts, "argv": put_argv(opts, [arg]), "stdin": None,
                      "randints": [rng.randint(0, 65535) for _ in range(3)],
                      "meta": [dict({"class": "entry", "kind": kind, "spelling": "x", "entry": d + b"/" + name},
                                    **({"contains_trash_dir": True} if scenario == "self-containing" and k == 0 else {}))]})
    if scenario in ("collision", "mixed-kinds"):
        t = home + b"/.local/share/Trash"
        w.dir(t, 0o700)
        w.dir(t + b"/files", 0o700)
        w.dir(t + b"/info", 0o700)
        populate_trash(rng, w, t, [name], rng.randint(1, 3))
    world = w.world(env={"HOME": home}, uid=uid, cwd=home, cmd="put", args=[], opts=opts, argv=[], stdin=None, meta=[])
    return world, procs, scenario, base_name, nproc


def random_schedule(task, rng, drv, world, procs, scenario, name, nproc):
    # schedule: sticky random walk over the processes (few preemptions) or fully random
    L = rng.choice([0, 50, 150, 400])
    sticky = rng.choice([0.0, 0.5, 0.8, 0.95])
    sched, cur = [], rng.randrange(nproc)
    for _ in range(L):
        if rng.random() > sticky:
            cur = rng.randrange(nproc)
        sched.append(cur)
    obs, bad = judge(world, procs, sched, drv)
    if task.get("follow"):
        bad = bad + followups(world, procs, obs, task["follow"])
    switches = sum(1 for a, c in zip(obs["executed"], obs["executed"][1:]) if a != c)
    out = {"key": (scenario, nproc, tuple(sched[:60]), name), "tags": ["scenario:" + scenario, "procs:%d" % nproc,
                                                                      "switches:%s" % ("0" if switches == 0 else "1-5" if switches <= 5 else "6-50" if switches <= 50 else ">50"),
                                                                      "exits:" + ",".join(str(p["exit"]) for p in obs["procs"])],
           "bad": bad, "steps": len(obs["executed"]), "switches": switches}
    if bad:
        out["world"] = jsonable(world)
        out["procs"] = jsonable(procs)
        out["schedule"] = obs["executed"]
        out["stderr"] = [repr(p["stderr"][-600:]) for p in obs["procs"]]
    return out


def add_concurrent(ck, tier, seed, oracles=None, n_quick=120, n_thorough=3000, follow=None):
    """`oracles`: which verdicts count for the calling check (None: all); `follow`: "list" / "restore" after the puts"""
    n = n_quick if tier == "quick" else n_thorough
    steps = 0
    tasks = [{"seed": seed, "i": i, "follow": follow} for i in range(n)]
    # directed part: one preemption of process 0 at each of its first 70 steps, for the scenarios where a window matters
    ns = min(12, max(1, n // 40))
    tasks += [{"seed": seed, "i": 100000 + j, "follow": follow, "scenario": sc, "nproc": 2, "preempt_sweep": 70}
              for j in range(ns) for sc in ("self-containing", "collision", "first-use", "suffix-twins")]
    for r in run_tasks(par_task, tasks):
        if "machinery" in r:
            raise MachineryError(r["machinery"])
        ck.case(r["key"], tags=["concurrent"] + r["tags"], sample={"concurrent": r["key"][0], "procs": r["key"][1], "steps": r["steps"]})
        steps += r["steps"]
        for b in r["bad"]:
            if oracles is not None and b["oracle"] not in oracles:
                continue
            ck.violation(b["verdict"], {"oracle": b["oracle"], "concurrent": True},
                         {"world": r.get("world"), "procs": r.get("procs"), "schedule": r.get("schedule"), "stderr": r.get("stderr"),
                          "verdict": b["verdict"]})
    ck.extra["concurrent_runs"] = n
    ck.extra["scheduled_steps"] = steps
