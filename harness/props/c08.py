"""C08 — an insecure shared $topdir/.Trash is never used, for writing, reading or purging."""
from ..core import Check, audit
from ..putfamily import absorb as put_absorb, eval_task as put_eval
from ..readfamily import absorb as read_absorb, eval_task as read_eval, replay_family, tasks_for
from ..runner import run_tasks

def tweak(world, rng):
    """half of the reading worlds get, on one volume, an insecure $topdir/.Trash (no sticky bit, or a symbolic link to a
    directory, sticky or not) with a populated $uid behind it: a well-formed old entry, a malformed one, and payloads
    without .trashinfo (a file and a directory) - what an orphan sweep or a purge would go for"""
    from ..model import cmd_argv
    if rng.random() < 0.5:
        return world
    nodes = {n["p"]: n for n in world["nodes"]}
    uid = world["uid"]
    v = rng.choice(world["mounts"])
    how = rng.choice(["nonsticky", "link-sticky", "link-nonsticky"] + (["link-other-volume"] * 2 if len(world["mounts"]) > 1 else []))
    if how == "link-other-volume":
        # (the volume with the link comes AFTER the one whose .Trash it points to, most of the time: whatever a command
        #  remembers about the first must not speak for the second)
        v = rng.choice(world["mounts"][1:]) if rng.random() < 0.8 else v
    t = v + b"/.Trash"
    for q in [q for q in nodes if q == t or q.startswith(t + b"/")]:
        del nodes[q]
    mt = 1000000400
    if how == "link-other-volume":
        return other_volume(world, rng, nodes, v, mt)
    if len(world["mounts"]) > 1 and world["cmd"] in ("list", "empty", "rm") and rng.random() < 0.25:
        world = volumes_env(world, rng, nodes, v, mt)
        nodes = {n["p"]: n for n in world["nodes"]}

    def d(path, mode=0o755):
        nodes[path] = {"p": path, "k": "d", "mode": mode, "mtime": mt}

    def f(path, data, mode=0o644):
        nodes[path] = {"p": path, "k": "f", "data": data, "mode": mode, "mtime": mt}
    if v not in nodes:
        d(v)
    if how == "nonsticky":
        d(t, rng.choice([0o777, 0o755, 0o2777, 0o4777]))
        real = t
    else:
        real = v + b"/c08-real-trash"
        for q in [q for q in nodes if q == real or q.startswith(real + b"/")]:
            del nodes[q]
        d(real, 0o1777 if how == "link-sticky" else 0o777)
        nodes[t] = {"p": t, "k": "l", "target": rng.choice([b"c08-real-trash", real])}
    u = real + b"/%d" % uid
    d(u, 0o700)
    d(u + b"/files", 0o700)
    d(u + b"/info", 0o700)
    f(u + b"/info/c08good.trashinfo", b"[Trash Info]\nPath=stuff/c08good\nDeletionDate=2000-01-01T00:00:00\n", 0o600)
    f(u + b"/files/c08good", b"must stay")
    f(u + b"/info/c08bad.trashinfo", b"", 0o600)
    f(u + b"/files/c08bad", b"must stay too")
    f(u + b"/files/c08-orphan", b"no info for me")
    d(u + b"/files/c08-orphan-dir")
    f(u + b"/files/c08-orphan-dir/inner", b"deep orphan")
    world["nodes"] = sorted(nodes.values(), key=lambda n: n["p"])
    meta = world["meta"]
    meta["entries"] = [e for e in meta["entries"] if e["tdir"] + b"/info/" + e["name"] + b".trashinfo" in nodes]
    meta["entries"].append({"tdir": t + b"/%d" % uid if how == "nonsticky" else u, "name": b"c08good", "loc": v.rstrip(b"/") + b"/stuff/c08good",
                            "rec": b"stuff/c08good", "date": "2000-01-01T00:00:00", "base": v})
    meta["tdirs"] = list(meta["tdirs"]) + [(u, v)]
    if world["cmd"] == "restore":
        world["opts"]["path"] = b"/"
        world["opts"].pop("trashDir", None)
    elif world["cmd"] == "rm":
        world["args"] = [rng.choice([b"*", b"c08*", b"c08good"])]
    elif world["cmd"] == "empty":
        world["opts"].pop("userDirs", None)
        if rng.random() < 0.5:
            world["opts"].pop("dryRun", None)
    world["argv"] = cmd_argv(world)
    return world


def volumes_env(world, rng, nodes, v, mt):
    """TRASH_VOLUMES names a volume through a symbolic link followed by '..' (typed by hand): the kernel follows the link
    first; the directory that is judged is the directory that is read - a textual collapse of the spelling would name the
    $topdir the link lives on, whose insecure .Trash nobody has judged"""
    uid = world["uid"]
    b_ = rng.choice([m for m in world["mounts"] if m != v])
    for q in (v, b_, b_.rstrip(b"/") + b"/sub"):
        if q not in nodes:
            nodes[q] = {"p": q, "k": "d", "mode": 0o755, "mtime": mt}
        elif nodes[q]["k"] != "d":
            return world
    lk = v.rstrip(b"/") + b"/to-other"
    if lk in nodes:
        return world
    nodes[lk] = {"p": lk, "k": "l", "target": b_.rstrip(b"/") + b"/sub"}
    world["nodes"] = sorted(nodes.values(), key=lambda n: n["p"])
    world["env"] = dict(world["env"], TRASH_VOLUMES=b":".join([v, lk + b"/.."]))
    world["opts"].pop("userDirs", None)
    return world


def other_volume(world, rng, nodes, v, mt):
    """$topdir/.Trash of volume v is a symbolic link to the genuine, sticky .Trash of ANOTHER volume: each volume's .Trash
    is judged on its own (a link is refused, wherever it leads); the entries behind it belong to the other volume only"""
    from ..model import cmd_argv
    uid = world["uid"]
    earlier = [m for m in world["mounts"][:world["mounts"].index(v)] if m != v]
    a = rng.choice(earlier) if earlier and rng.random() < 0.8 else rng.choice([m for m in world["mounts"] if m != v])
    ta = a.rstrip(b"/") + b"/.Trash"
    for q in [q for q in nodes if q == ta or q.startswith(ta + b"/")]:
        del nodes[q]
    for m in (a, v):
        if m not in nodes:
            nodes[m] = {"p": m, "k": "d", "mode": 0o755, "mtime": mt}
    nodes[ta] = {"p": ta, "k": "d", "mode": 0o1777, "mtime": mt}
    u = ta + b"/%d" % uid
    for q, mode in ((u, 0o700), (u + b"/files", 0o700), (u + b"/info", 0o700)):
        nodes[q] = {"p": q, "k": "d", "mode": mode, "mtime": mt}
    nodes[u + b"/info/c08shared.trashinfo"] = {"p": u + b"/info/c08shared.trashinfo", "k": "f", "mode": 0o600, "mtime": mt,
                                               "data": b"[Trash Info]\nPath=stuff/c08shared\nDeletionDate=2001-02-03T04:05:06\n"}
    nodes[u + b"/files/c08shared"] = {"p": u + b"/files/c08shared", "k": "f", "mode": 0o644, "mtime": mt, "data": b"belongs to the other volume"}
    t = v.rstrip(b"/") + b"/.Trash"
    nodes[t] = {"p": t, "k": "l", "target": rng.choice([ta, ta + b"/"])}
    world["nodes"] = sorted(nodes.values(), key=lambda n: n["p"])
    meta = world["meta"]
    meta["entries"] = [e for e in meta["entries"] if e["tdir"] + b"/info/" + e["name"] + b".trashinfo" in nodes]
    meta["entries"].append({"tdir": u, "name": b"c08shared", "loc": a.rstrip(b"/") + b"/stuff/c08shared", "rec": b"stuff/c08shared",
                            "date": "2001-02-03T04:05:06", "base": a})
    meta["tdirs"] = [x for x in meta["tdirs"] if x[0] != u] + [(u, a)]
    if world["cmd"] == "restore":
        world["opts"]["path"] = b"/"
        world["opts"].pop("trashDir", None)
    elif world["cmd"] == "empty":
        world["opts"].pop("userDirs", None)
    world["argv"] = cmd_argv(world)
    return world


def stat_fault_task(task):
    """two volumes: the first with a genuine sticky .Trash/$uid, the second with a NON-sticky .Trash and a populated $uid
    behind it; every probe the command makes of the second volume's .Trash fails in turn (EIO, or ENOENT - the directory is
    being swapped under the command's feet).  Whatever the command does about the error (it dies, on this tree), nothing
    stored behind the directory it could not judge is shown or removed - the verdict on the previous volume does not carry
    over.  Judged on the real run alone (the model has no failing probes in the readers)."""
    from ..model import W, cmd_argv, snap_to_state
    from ..runner import jsonable, task_rng
    from ..sandbox import MODEL_ROOT as R, run_world
    rng = task_rng("C08stat", task["seed"], task["i"])
    w = W()
    home = w.dir(R + b"/home/u")
    va, vb = R + b"/va", R + b"/vb"
    w.mount(va)
    w.mount(vb)
    uid = 1000
    w.dir(va + b"/.Trash", 0o1777)
    w.dir(vb + b"/.Trash", rng.choice([0o777, 0o755]))
    for v, nm in ((va, b"fine"), (vb, b"c08good")):
        u = v + b"/.Trash/%d" % uid
        w.dir(u, 0o700)
        w.dir(u + b"/files", 0o700)
        w.dir(u + b"/info", 0o700)
        w.file(u + b"/info/" + nm + b".trashinfo", b"[Trash Info]\nPath=stuff/" + nm + b"\nDeletionDate=2000-01-01T00:00:00\n", 0o600)
        w.file(u + b"/files/" + nm, b"payload " + nm)
    w.file(vb + b"/.Trash/%d/files/orphan" % uid, b"no info")
    cmd = ["list", "empty", "rm"][task["i"] % 3]
    env = {"HOME": home}
    opts, args = {}, []
    if cmd == "empty":
        env["TRASH_DATE"] = b"2024-03-02T12:00:00"
        opts = {"now": [2024, 3, 2, 12, 0, 0]}
    if cmd == "rm":
        args = [b"*"]
    if task["i"] % 2:
        env["TRASH_VOLUMES"] = va + b":" + vb
    world = w.world(env=env, uid=uid, cwd=R, cmd=cmd, opts=opts, args=args, stdin=None,
                    meta={"entries": [], "tdirs": [], "profile": "stat-fault", "payload_kinds": ["file"], "sentinels": []})
    world["argv"] = cmd_argv(world)
    probe = run_world(world, {"log_reads": True})
    target = (vb + b"/.Trash").hex()
    idx = [k for k, (kind, path) in enumerate(probe.get("read_log", [])) if path == target]
    bad, runs = [], 0
    guarded = vb + b"/.Trash/"
    for k in idx:
        for e in ("EIO", "ENOENT"):
            o = run_world(world, {"read_faults": [{"index": k, "errno": e}]})
            runs += 1
            before, after = snap_to_state(o["before"]), snap_to_state(o["after"])
            gone = sorted(p for p in before if p.startswith(guarded) and (p not in after or after[p] != before[p]))
            shown = (vb + b"/stuff/c08good") in o["stdout"]
            if gone or shown:
                bad.append({"failing_probe": k, "errno": e, "probe": probe["read_log"][k][0], "removed_or_changed": [repr(p) for p in gone[:6]],
                            "listed": shown, "stdout": repr(o["stdout"][-400:]), "stderr": repr(o["stderr"][-400:]), "world": jsonable(world),
                            "directed": {"fn": "stat_fault_task", "task": {"seed": task["seed"], "i": task["i"]}}})
                break
        if bad:
            break
    return {"runs": runs, "probes": len(idx), "bad": bad, "key": (cmd, task["i"] % 2, task["i"])}


PUT_CFG = {"oracles": ("C08", "C07"), "violations": ("C08",), "profile": "single", "states": False}
READ_CFG = {"cmds": ["list", "restore", "empty", "rm"], "oracles": ("C08", "c08", "effects"), "violations": ("C08",),
            "profile": "mixed", "states": False, "tweak": tweak}
LEVEL_NOTE = ("theorems: trash-put's security check rejects $topdir/.Trash/$uid exactly when $topdir/.Trash is a symlink, "
              "not a directory or not sticky; the scanner of list/empty/rm and trash-restore never yield it then; "
              "trash-list reports the skipped directory")
RULE = ("seeded worlds where $topdir/.Trash is absent / sticky dir / non-sticky dir / symlink to sticky or non-sticky dir / "
        "regular file / a symlink to the genuine sticky .Trash of ANOTHER volume, with a populated .Trash/$uid behind it, for all five commands; two-volume worlds where every probe of the second volume's non-sticky .Trash fails in turn (EIO / ENOENT); oracle: the subtree of an insecure "
        ".Trash/$uid is byte-for-byte unchanged and none of its entries' paths is printed")


def run(tier, seed):
    ck = Check("C08", tier, seed)
    info = audit("C08")
    n = 250 if tier == "quick" else 4000
    put_absorb(ck, "C08", run_tasks(put_eval, [{"pid": "C08", "seed": seed, "i": i, "cfg": PUT_CFG} for i in range(n)]), PUT_CFG, "Model.Put")
    # a volume mounted on a path that has ".Trash-$uid" among its components, every time
    ocfg = dict(PUT_CFG, focus="odd-mount")
    put_absorb(ck, "C08", run_tasks(put_eval, [{"pid": "C08odd", "seed": seed, "i": i, "cfg": ocfg} for i in range(60 if tier == "quick" else 600)]), ocfg, "Model.Put")
    read_absorb(ck, run_tasks(read_eval, tasks_for("C08", seed, READ_CFG, n)), READ_CFG)
    for r in run_tasks(stat_fault_task, [{"seed": seed, "i": i} for i in range(6 if tier == "quick" else 36)]):
        if "machinery" in r:
            from ..lean import MachineryError
            raise MachineryError(r["machinery"])
        ck.case(("stat-fault", r["key"], r["runs"]), nontrivial=r["probes"] > 0, tags=["stat-fault:%s" % r["key"][0]])
        for b in r["bad"]:
            ck.violation("unjudged-directory-is-not-used", {"oracle": "C08-stat-fault", "cmd": r["key"][0]}, b)
    return ck.finish(info, LEVEL_NOTE, RULE)


def replay(path):
    import sys
    from ..core import replay_directed
    rc = replay_directed(sys.modules[__name__], "C08", path)
    if rc is not None:
        return rc
    return replay_family("C08", path, READ_CFG)
