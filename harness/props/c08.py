"""C08 — an insecure shared $topdir/.Trash is never used, for writing, reading or purging."""
from ..core import Check, audit
from ..putfamily import absorb as put_absorb, eval_task as put_eval
from ..readfamily import absorb as read_absorb, eval_task as read_eval, replay_family, tasks_for
from ..runner import run_tasks

PUT_CFG = {"oracles": ("C08", "C07"), "violations": ("C08",), "profile": "single", "states": False}
READ_CFG = {"cmds": ["list", "restore", "empty", "rm"], "oracles": ("C08", "c08", "effects"), "violations": ("C08",),
            "profile": "mixed", "states": False}
LEVEL_NOTE = ("theorems: trash-put's security check rejects $topdir/.Trash/$uid exactly when $topdir/.Trash is a symlink, "
              "not a directory or not sticky; the scanner of list/empty/rm and trash-restore never yield it then; "
              "trash-list reports the skipped directory")
RULE = ("seeded worlds where $topdir/.Trash is absent / sticky dir / non-sticky dir / symlink to sticky or non-sticky dir / "
        "regular file, with a populated .Trash/$uid behind it, for all five commands; oracle: the subtree of an insecure "
        ".Trash/$uid is byte-for-byte unchanged and none of its entries' paths is printed")


def run(tier, seed):
    ck = Check("C08", tier, seed)
    info = audit("C08")
    n = 250 if tier == "quick" else 4000
    put_absorb(ck, "C08", run_tasks(put_eval, [{"pid": "C08", "seed": seed, "i": i, "cfg": PUT_CFG} for i in range(n)]), PUT_CFG, "Model.Put")
    read_absorb(ck, run_tasks(read_eval, tasks_for("C08", seed, READ_CFG, n)), READ_CFG)
    return ck.finish(info, LEVEL_NOTE, RULE)


def replay(path):
    return replay_family("C08", path, READ_CFG)
