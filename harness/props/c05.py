"""C05 — killing trash-put at any instant loses nothing and leaves no orphan payload.

Every state a kill can leave behind = the sandbox as it is before each mutating call of the run and
at its end.  They are recorded in one uninterrupted run (the kernel executes each call atomically,
the code does no user-space buffering on these paths); a sample of them is cross-checked by really
killing the process (os._exit before call k)."""
from ..putfamily import absorb, eval_task, replay_family, run_family
from ..core import Check, audit
from ..model import canon_dates, snap_to_state
from ..runner import run_tasks, task_rng
from ..sandbox import run_world
from ..worldgen import gen_put_world

CFG = {"oracles": ("C05", "C01"), "violations": ("C05",), "profile": "mixed", "states": True}
LEVEL_NOTE = ("theorems: every recorded state of the resolved-layer core (rename path) and of atomic_write satisfies the "
              "invariant; C05Copy: the copy fallback of shutil.move (files, links, trees of any depth) keeps the source "
              "whole or the destination whole in every crash state, under every fault oracle; a kill is modelled as "
              "taking effect between two system calls (not power loss); C05Cmd (whole runs of trash-put, every crash state): put_run_crash_inv_home(_existing) / _volume(_top) / _custom - the entry is whole at its place or whole under files/, and whenever files/N exists info/N.trashinfo is a complete, conformant, parseable file; crash_states_of_first_use lists the states (mkdirs, empty info, written info, payload moved); first_use_empty_info_state (allowed: no payload yet), first_use_no_payload_without_info; C05Seq: crash states compose over the argument list (crash_states_append, every oracle) and in EVERY crash "
              "state of an N-argument everyday run EVERY argument is whole at its origin or whole under files/ with its parseable info "
              "(n_args_crash_inv_home_partial)")
RULE = ("seeded random put worlds (as C01) plus forced cross-volume worlds (home fallback onto another volume: copy, then "
        "delete, of files, links and directory trees); for each, every state before each mutating "
        "call and the final state is compared with the model's state sequence and checked against the Lean predicate "
        "C05.Holds; a keyboard interrupt delivered right after each mutating call in turn (the interpreter unwinds through the "
        "program's handlers) must leave a state satisfying the same predicate; 2-3 real trash-put processes interleaved call by call (one is suspended "
        "between its info file and its payload while another runs), oracle C01 on the final state; thorough: real kills at every "
        "call index of a sample")


def kill_task(task):
    """really kill the run before call k and compare with the state recorded before call k"""
    world = gen_put_world(task_rng("C05", task["seed"], task["i"]))
    full = run_world(world, {"states": True})
    n = len(full["states"]) - 1
    bad = []
    before = snap_to_state(full["before"])
    for k in range(n):
        o = run_world(world, {"crash_at": k})
        if canon_dates(snap_to_state(o["after"]), before)[0] != canon_dates(snap_to_state(full["states"][k]), before)[0]:
            bad.append(k)
    return {"n": n, "bad": bad, "args": [repr(a) for a in world["args"]]}


def fallback_world(rng):
    """the move that cannot be a rename: an entry (file, link, directory tree) on a volume whose own trash directories
    are unusable, trashed into the home trash of another volume by way of the home fallback - copy, then delete"""
    from ..model import W, put_argv
    from ..sandbox import MODEL_ROOT as R
    from ..worldgen import make_entry
    w = W()
    uid = rng.choice([0, 1000])
    home = w.dir(R + b"/home/u")
    vol = w.mount(R + b"/vol1")
    w.file(vol + b"/.Trash-%d" % uid, b"in the way")        # .Trash-$uid cannot be a directory, .Trash is absent
    if rng.random() < 0.5:
        w.file(vol + b"/.Trash", b"not a directory either")
    d = w.dir(vol + b"/stuff")
    name = rng.choice([b"f", b"a b", b"tree", b"caf\xc3\xa9"])
    kind = make_entry(rng, w, d, name, rng.choice(["tree", "tree", "tree", "file", "link-dangling", "empty"]))
    if kind == "tree" and rng.random() < 0.6:
        w.file(d + b"/" + name + b"/deep/er/leaf", b"leaf")
        w.file(d + b"/" + name + b"/zz-last", b"z")
    if rng.random() < 0.4:
        t = home + b"/.local/share/Trash"
        w.dir(t, 0o700)
        w.dir(t + b"/files", 0o700)
        w.dir(t + b"/info", 0o700)
        if rng.random() < 0.5:
            w.file(t + b"/info/" + name + b".trashinfo", b"[Trash Info]\nPath=/x\nDeletionDate=2020-01-01T00:00:00\n", 0o600)
            w.file(t + b"/files/" + name, b"older")
    opts = {"homeFallback": True}
    args = [d + b"/" + name]
    world = w.world(env={"HOME": home, "TRASH_ENABLE_HOME_FALLBACK": b"1"}, uid=uid, cwd=home, cmd="put", opts=opts, args=args,
                    stdin=None, randints=[3, 4, 5], meta=[{"class": "entry", "kind": kind, "spelling": "abs", "entry": args[0]}])
    world["argv"] = put_argv(opts, args)
    return world


def fallback_task(task):
    t = dict(task)
    t["world"] = fallback_world(task_rng("C05f", task["seed"], task["i"]))
    return eval_task(t)


def interrupt_task(task):
    """a keyboard interrupt (SIGINT) right after each mutating call in turn: the interpreter unwinds through the program's
    own handlers; whatever they do on the way out, the state left behind must satisfy the same invariant as after a kill"""
    from ..lean import hx
    from ..model import snapshot_rows
    from ..putcheck import put_facts
    from ..runner import driver
    rng = task_rng("C05i", task["seed"], task["i"])
    world = fallback_world(rng) if task["i"] % 2 else gen_put_world(rng, "single")
    full = run_world(world, {}, facts=put_facts)
    facts = full["facts"]
    n = len(full["trace"])
    drv = driver()
    mounts = [hx(x) for x in world["mounts"]]
    dirs = [hx(d["dir"]) for d in facts["dirs"]]
    entries = [hx(it["entry"]) for it in facts["items"] if it["entry"] is not None]
    bad = []
    for k in range(min(n, 60)):
        o = run_world(world, {"interrupt_after": k})
        r = drv.ask({"op": "oracle", "prop": "C05", "before": snapshot_rows(full["before"]), "after": snapshot_rows(o["after"]),
                     "mounts": mounts, "dirs": dirs, "entries": entries})
        if not r["ok"]:
            bad.append({"k": k, "verdict": r["verdict"], "call": full["trace"][k][:2], "exc": o.get("exc")})
    out = {"n": n, "bad": bad, "args": [repr(a) for a in world["args"]], "kind": world["meta"][0].get("kind", "?") if world["meta"] else "?"}
    if bad:
        from ..runner import jsonable
        out["world"] = jsonable(world)
    return out


def run(tier, seed):
    ck = Check("C05", tier, seed)
    info = audit("C05")
    n, nf = (150, 40) if tier == "quick" else (2500, 600)
    results = run_tasks(eval_task, [{"pid": "C05", "seed": seed, "i": i, "cfg": CFG} for i in range(n)])
    absorb(ck, "C05", results, CFG, "Model.Put")
    absorb(ck, "C05", run_tasks(fallback_task, [{"pid": "C05", "seed": seed, "i": i, "cfg": CFG} for i in range(nf)]), CFG, "Model.Put")
    ints = run_tasks(interrupt_task, [{"seed": seed, "i": i} for i in range(30 if tier == "quick" else 400)])
    ni = 0
    for r in ints:
        if "machinery" in r:
            from ..lean import MachineryError
            raise MachineryError(r["machinery"])
        ni += r["n"]
        ck.case(("interrupt", tuple(r["args"]), r["n"]), tags=["interrupt-sweep", "interrupt:kind:" + str(r["kind"])],
                sample={"interrupt_after_each_of": r["n"], "args": r["args"]})
        for b in r["bad"][:3]:
            ck.violation("interrupted: " + b["verdict"], {"oracle": "C05", "interrupt": True},
                         {"world": r.get("world"), "interrupt_after": b["k"], "call": b["call"], "verdict": b["verdict"]})
    ck.extra["interrupt_points"] = ni
    # a trash-put that is suspended (not killed) between its info file and its payload while another one runs: the same
    # invariant - a payload under files/ has its info file - judged on the final state of interleaved runs
    from . import parworlds
    parworlds.add_concurrent(ck, tier, seed + 505, oracles=("C01",), n_quick=60, n_thorough=1500)
    if tier == "quick":
        from ..putfamily import search_failing_input
        search_failing_input(ck, "C05", seed, CFG, n, "Model.Put")
        return ck.finish(info, LEVEL_NOTE, RULE)
    kills = run_tasks(kill_task, [{"seed": seed, "i": i} for i in range(120)])
    nk = 0
    for k in kills:
        if "machinery" in k:
            from ..lean import MachineryError
            raise MachineryError(k["machinery"])
        nk += k["n"]
        if k["bad"]:
            ck.disagreement("recorded pre-call states vs states after a real kill", k)
    ck.extra["real_kills"] = nk
    return ck.finish(info, LEVEL_NOTE, RULE)


def replay(path):
    from . import parworlds
    rc = parworlds.replay_concurrent("C05", path, oracles=("C01",))
    if rc is not None:
        return rc
    return replay_family("C05", path, CFG)
