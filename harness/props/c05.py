"""C05 — killing trash-put at any instant loses nothing and leaves no orphan payload.

Every state a kill can leave behind = the sandbox as it is before each mutating call of the run and
at its end.  They are recorded in one uninterrupted run (the kernel executes each call atomically,
the code does no user-space buffering on these paths); a sample of them is cross-checked by really
killing the process (os._exit before call k)."""
from ..putfamily import absorb, eval_task, replay_family, run_family
from ..core import Check, audit
from ..model import canon_dates, snap_to_state
from ..runner import run_tasks, task_rng
from ..sandbox import run_world
from ..worldgen import gen_put_world

CFG = {"oracles": ("C05", "C01"), "violations": ("C05",), "profile": "mixed", "states": True}
LEVEL_NOTE = ("theorems: every recorded state of the resolved-layer core (rename path) and of atomic_write satisfies the "
              "invariant; the cross-device copy/delete phases of shutil.move are covered by the correspondence and the "
              "oracle only; a kill is modelled as taking effect between two system calls (not power loss)")
RULE = ("seeded random put worlds (as C01) with home-fallback worlds included; for each, every state before each mutating "
        "call and the final state is compared with the model's state sequence and checked against the Lean predicate "
        "C05.Holds; thorough: real kills at every call index of a sample")


def kill_task(task):
    """really kill the run before call k and compare with the state recorded before call k"""
    world = gen_put_world(task_rng("C05", task["seed"], task["i"]))
    full = run_world(world, {"states": True})
    n = len(full["states"]) - 1
    bad = []
    before = snap_to_state(full["before"])
    for k in range(n):
        o = run_world(world, {"crash_at": k})
        if canon_dates(snap_to_state(o["after"]), before)[0] != canon_dates(snap_to_state(full["states"][k]), before)[0]:
            bad.append(k)
    return {"n": n, "bad": bad, "args": [repr(a) for a in world["args"]]}


def run(tier, seed):
    if tier == "quick":
        return run_family("C05", tier, seed, CFG, 150, 0, LEVEL_NOTE, RULE)
    ck = Check("C05", tier, seed)
    info = audit("C05")
    results = run_tasks(eval_task, [{"pid": "C05", "seed": seed, "i": i, "cfg": CFG} for i in range(2500)])
    absorb(ck, "C05", results, CFG, "Model.Put")
    kills = run_tasks(kill_task, [{"seed": seed, "i": i} for i in range(120)])
    nk = 0
    for k in kills:
        if "machinery" in k:
            from ..lean import MachineryError
            raise MachineryError(k["machinery"])
        nk += k["n"]
        if k["bad"]:
            ck.disagreement("recorded pre-call states vs states after a real kill", k)
    ck.extra["real_kills"] = nk
    return ck.finish(info, LEVEL_NOTE, RULE)


def replay(path):
    return replay_family("C05", path, CFG)
