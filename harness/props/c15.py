import os

"""C15 — killing restore, empty or rm at any instant never strands a payload without info."""
from ..core import Check, audit
from ..model import cmd_argv, snap_to_state, world_from_state
from ..readfamily import absorb, eval_task, replay_family, tasks_for
from ..runner import run_tasks, task_rng
from ..sandbox import run_world
from ..worldgen import gen_trash_world

def tweak(world, rng):
    """restores: select everything that is offered, so that directory payloads, symlinks and cross-volume
    destinations (home trash on its own volume, original location elsewhere) are all exercised"""
    if world["cmd"] != "restore" or rng.random() < 0.3:
        return world
    nodes = {n["p"]: n for n in world["nodes"]}
    k = 0
    for e in world["meta"]["entries"]:
        t = e["tdir"]
        parent = os.path.dirname(t)
        if os.path.basename(parent) == b".Trash":
            n = nodes.get(parent)
            ok = n is not None and n["k"] == "d" and n.get("mode", 0) & 0o1000
        elif b"real-trash" in t:
            ok = False
        else:
            ok = True
        k += 1 if ok else 0
    world["opts"]["path"] = b"/"
    world["opts"].pop("trashDir", None)
    if k >= 1:
        world["stdin"] = b"0-%d\n" % (k - 1)
    world["argv"] = cmd_argv(world)
    return world


CFG = {"cmds": ["restore", "restore", "empty", "rm"], "oracles": ("crash15", "effects"), "violations": ("crash15",), "profile": "clean",
       "states": True, "tweak": tweak, "interrupt_sweep": 40}
LEVEL_NOTE = ("theorems: while one entry is purged the info file is untouched as long as the payload root exists (every "
              "oracle); re-running the purge completes it; a same-volume restore keeps the entry complete in the trash or "
              "at its destination in every intermediate state. Cross-volume restores (copy + delete) are covered by the "
              "recorded states and the oracle only; C15Loop (any number of entries): every crash state of the trash-empty / "
              "trash-rm loop is a PREFIX state (the first k selected entries purged whole, one entry inside its own purge, the "
              "rest untouched), hence no payload without its info file in any of them (trash-rm: every oracle; trash-empty: "
              "fault-free, with the refutation under faults - a payload whose removal fails loses its info file all the same), "
              "and re-running the loop from any crash state ends where the uninterrupted run ends")
RULE = ("seeded trash worlds (files, deep directories, symlinks; single and multiple entries; same- and cross-volume "
        "destinations); every state before each mutating call is compared with the model's state sequence and checked "
        "against Effects.crashCheck; for a third of the worlds a keyboard interrupt behind each mutating call in turn, the state "
        "left by the program's own handlers judged by the same predicate; two worlds with 101-130 entries in one directory (whatever "
        "is done in batches), every intermediate state judged; cross-volume directory restores with a keyboard interrupt behind every call of the copy AND of the delete phase; thorough: real kills + re-run of trash-empty / trash-rm to completion")


def rerun_task(task):
    """kill trash-empty / trash-rm before call k, run it again on what is left, compare with an uninterrupted run"""
    rng = task_rng("C15r", task["seed"], task["i"])
    cmd = ["empty", "rm"][task["i"] % 2]
    world = gen_trash_world(rng, cmd, "clean")
    if world["opts"].get("dryRun") or world["opts"].get("interactive"):
        return {"skip": True}
    full = run_world(world, {"states": True})
    if full.get("exc"):
        return {"skip": True}
    final = snap_to_state(full["after"])
    n = len(full["states"]) - 1
    bad = []
    for k in range(n):
        o = run_world(world, {"crash_at": k})
        w2 = world_from_state(world, snap_to_state(o["after"]))
        o2 = run_world(w2, {})
        got = snap_to_state(o2["after"])
        # compare the trash dirs only (mtimes of directories differ legitimately)
        strip = lambda st: {p: (v[0], v[1], v[2], 0 if v[0] == "d" else v[3], v[4]) for p, v in st.items()}
        if strip(got) != strip(final):
            bad.append(k)
    return {"skip": False, "n": n, "bad": bad, "cmd": cmd}


def big_world(seed, i):
    """one trash directory with more than a hundred entries (whatever a command does in batches or every n-th time),
    purged by trash-empty or trash-rm: the crash invariant in every one of the ~2n intermediate states"""
    from ..model import W
    from ..sandbox import MODEL_ROOT as R
    rng = task_rng("C15big", seed, i)
    w = W()
    home = w.dir(R + b"/home/u")
    t = home + b"/.local/share/Trash"
    w.dir(t, 0o700)
    w.dir(t + b"/files", 0o700)
    w.dir(t + b"/info", 0o700)
    n = rng.choice([101, 104, 130])
    entries = []
    for j in range(n):
        nm = b"entry-%03d" % j
        loc = home + b"/docs/" + nm
        w.file(t + b"/info/" + nm + b".trashinfo", b"[Trash Info]\nPath=" + loc + b"\nDeletionDate=2020-01-%02dT00:00:00\n" % (j % 28 + 1), 0o600)
        if j % 50 == 7:
            w.file(t + b"/files/" + nm + b"/deep/leaf", b"directory payload")
        else:
            w.file(t + b"/files/" + nm, b"p%d" % j)
        entries.append({"tdir": t, "name": nm, "loc": loc, "rec": loc, "date": "2020-01-%02dT00:00:00" % (j % 28 + 1), "base": None})
    cmd = ["empty", "rm"][i % 2]
    opts, args, env = {}, [], {"HOME": home}
    if cmd == "empty":
        env["TRASH_DATE"] = b"2024-03-02T12:00:00"
        opts = {"now": [2024, 3, 2, 12, 0, 0]}
        if rng.random() < 0.5:
            opts["days"] = 30
    else:
        args = [b"entry-*"]
    world = w.world(env=env, uid=1000, cwd=home, cmd=cmd, opts=opts, args=args, stdin=None,
                    meta={"entries": entries, "tdirs": [(t, None)], "profile": "big", "payload_kinds": ["file"], "sentinels": []})
    world["argv"] = cmd_argv(world)
    return world


def stdout_fault_task(task):
    """trash-empty -v / trash-rm -v... with ONE failing write to stdout (the reader of a pipe went away, the disk is full):
    whatever the program does about it - stop, or carry on - no state may hold a payload whose info file is gone"""
    from .. import readcheck
    from ..runner import driver, jsonable
    world = big_world(task["seed"], 2 * task["i"])          # (the trash-empty variant: even index)
    # a smaller directory is enough here
    keep = {e["name"] for e in world["meta"]["entries"][:6]}
    t = world["meta"]["entries"][0]["tdir"]
    world["nodes"] = [n for n in world["nodes"] if not (n["p"].startswith(t + b"/files/") or n["p"].startswith(t + b"/info/")) or
                      any(n["p"].startswith(t + b"/files/" + k) or n["p"] == t + b"/info/" + k + b".trashinfo" for k in keep)]
    world["meta"]["entries"] = [e for e in world["meta"]["entries"] if e["name"] in keep]
    world["opts"]["verbose"] = 1 + task["i"] % 2
    world["argv"] = cmd_argv(world)
    bad, runs = [], 0
    for k in range(0, 14):
        r = readcheck.evaluate(world, driver(), want_states=True, oracles=("crash15",), plan={"stdout_fault": {"only": k, "errno": ["EPIPE", "ENOSPC"][k % 2]}})
        runs += 1
        c = r["oracle"].get("crash15")
        if c is not None and not c["ok"]:
            bad.append({"failing_write": k, "verdict": c["verdict"], "world": jsonable(world)})
            break
    return {"runs": runs, "bad": bad, "key": (task["i"], len(keep))}


def cross_volume_world(seed, i):
    """trash-restore of a directory tree from the home trash (home on its own volume) to a location on another volume: the
    move is a copy and a delete, child by child - in every state between two calls the entry is whole in the trash or whole
    at its place, and a payload under files/ has its info file"""
    from ..model import W
    from ..sandbox import MODEL_ROOT as R
    rng = task_rng("C15x", seed, i)
    w = W()
    w.mount(R + b"/home")
    home = w.dir(R + b"/home/u")
    t = home + b"/.local/share/Trash"
    w.dir(t, 0o700)
    w.dir(t + b"/files", 0o700)
    w.dir(t + b"/info", 0o700)
    nm = rng.choice([b"tree", b"a b"])
    loc = R + b"/w/" + nm
    w.dir(R + b"/w")
    w.file(t + b"/info/" + nm + b".trashinfo", b"[Trash Info]\nPath=" + loc.replace(b" ", b"%20") + b"\nDeletionDate=2021-01-01T00:00:00\n", 0o600)
    pay = t + b"/files/" + nm
    w.dir(pay, 0o750)
    for c in [b"a", b"b", b"sub/c", b"sub/deep/d"][:rng.choice([2, 3, 4])]:
        w.file(pay + b"/" + c, b"child " + c)
    if rng.random() < 0.5:
        w.link(pay + b"/lnk", b"a")
    entries = [{"tdir": t, "name": nm, "loc": loc, "rec": loc, "date": "2021-01-01T00:00:00", "base": None}]
    world = w.world(env={"HOME": home}, uid=1000, cwd=R, cmd="restore", opts={"path": b"/", "sort": "date"}, args=[], stdin=b"0\n",
                    meta={"entries": entries, "tdirs": [(t, None)], "profile": "cross-volume", "payload_kinds": ["tree"], "sentinels": []})
    world["argv"] = cmd_argv(world)
    return world


def same_inode_world(seed, i):
    """trash-restore where what stands at the original location is the payload itself under another name (a hard link of it,
    a symbolic link to it), with and without --overwrite: rename(2) between two names of one inode does nothing and reports
    success - the info file must not go unless the payload went"""
    from ..model import W
    from ..sandbox import MODEL_ROOT as R
    rng = task_rng("C15same", seed, i)
    w = W()
    home = w.dir(R + b"/home/u")
    t = home + b"/.local/share/Trash"
    w.dir(t, 0o700)
    w.dir(t + b"/files", 0o700)
    w.dir(t + b"/info", 0o700)
    entries = []
    for j, nm in enumerate([b"a", b"keep me"][:rng.choice([1, 2])]):
        loc = home + b"/docs/" + nm
        w.file(t + b"/info/" + nm + b".trashinfo", b"[Trash Info]\nPath=" + loc.replace(b" ", b"%20") + b"\nDeletionDate=2021-01-0%dT00:00:00\n" % (j + 1), 0o600)
        w.file(t + b"/files/" + nm, b"payload %d" % j, 0o640)
        pn = w.nodes[t + b"/files/" + nm]
        if j == 0:
            if i % 2 == 0:
                w.file(loc, pn["data"], pn["mode"])
                w.nodes[loc].update(mtime=pn["mtime"], hardlink=t + b"/files/" + nm)
            else:
                w.link(loc, t + b"/files/" + nm)
        entries.append({"tdir": t, "name": nm, "loc": loc, "rec": loc, "date": "2021-01-0%dT00:00:00" % (j + 1), "base": None,
                        "dest": "hardlink-of-payload" if (j == 0 and i % 2 == 0) else ("link-to-payload" if j == 0 else None)})
    opts = {"path": b"/", "sort": "date", "overwrite": (i // 2) % 2 == 0}
    world = w.world(env={"HOME": home}, uid=1000, cwd=home, cmd="restore", opts=opts, args=[], stdin=b"0-%d\n" % (len(entries) - 1),
                    meta={"entries": entries, "tdirs": [(t, None)], "profile": "same-inode", "payload_kinds": ["file"], "sentinels": []})
    world["argv"] = cmd_argv(world)
    return world


def run(tier, seed):
    ck = Check("C15", tier, seed)
    info = audit("C15")
    results = run_tasks(eval_task, tasks_for("C15", seed, CFG, 150 if tier == "quick" else 2500))
    absorb(ck, results, CFG)
    # (cross-volume directory restores: copy, then delete the source; a keyboard interrupt behind EVERY call of both
    #  phases - a handler that tidies up the destination is only right while the copy is still going on)
    x_cfg = dict(CFG, tweak=None, interrupt_sweep=120)
    absorb(ck, run_tasks(eval_task, [{"pid": "C15", "seed": seed, "i": 0, "cfg": x_cfg, "world": cross_volume_world(seed, i)}
                                     for i in range(6 if tier == "quick" else 40)]), x_cfg)
    same_cfg = dict(CFG, tweak=None, violations=("crash15", "effects"))
    absorb(ck, run_tasks(eval_task, [{"pid": "C15", "seed": seed, "i": 0, "cfg": same_cfg, "world": same_inode_world(seed, i)}
                                     for i in range(8 if tier == "quick" else 40)]), same_cfg)
    for r in run_tasks(stdout_fault_task, [{"seed": seed, "i": i} for i in range(4 if tier == "quick" else 30)]):
        if "machinery" in r:
            from ..lean import MachineryError
            raise MachineryError(r["machinery"])
        ck.case(("stdout-fault", r["key"], r["runs"]), tags=["stdout-fault"])
        for b in r["bad"]:
            ck.violation("payload-without-info after a failed write to stdout", {"oracle": "crash15", "stdout_fault": True}, b)
    big_cfg = dict(CFG, tweak=None, interrupt_sweep=0)
    absorb(ck, run_tasks(eval_task, [{"pid": "C15", "seed": seed, "i": 1, "cfg": big_cfg, "world": big_world(seed, i)}
                                     for i in range(2 if tier == "quick" else 12)]), big_cfg)
    reruns = run_tasks(rerun_task, [{"seed": seed, "i": i} for i in range(10 if tier == "quick" else 150)])
    nk = 0
    for r in reruns:
        if "machinery" in r:
            from ..lean import MachineryError
            raise MachineryError(r["machinery"])
        if r.get("skip"):
            continue
        nk += r["n"]
        ck.case(("rerun", r["cmd"], r["n"], nk), tags=["rerun:" + r["cmd"]])
        if r["bad"]:
            ck.violation("rerun-does-not-converge", {"oracle": "rerun", "cmd": r["cmd"]}, r)
    ck.extra["kill_and_rerun_points"] = nk
    return ck.finish(info, LEVEL_NOTE, RULE)


def replay(path):
    return replay_family("C15", path, CFG)
