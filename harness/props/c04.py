"""C04 — a trashed entry is never overwritten: names stay unique, also under concurrency.

Sequential part: pre-populated trash directories with colliding names of every kind; the oracle
checks that every previously trashed payload and info file is byte-for-byte intact and (C01) that
every success owns a new complete pair.  Concurrent part: see parworlds (added when available)."""
from ..putfamily import replay_family, run_family, absorb, eval_task
from ..core import Check, audit
from ..runner import run_tasks

CFG = {"oracles": ("C04", "C01"), "violations": ("C04",), "profile": "collide", "states": False}
LEVEL_NOTE = ("theorems: a successful put takes two names that were free and frames every other payload and info file; "
              "two successive puts own distinct names; shutil.move's move-into-directory branch is unreachable when the "
              "destination is free; the first 100 suffixes are distinct. Concurrency: protocol-level theorem in "
              "Props/C04Par.lean (one system call = one atomic step). C04Seq: ANY number of successive successful puts into one trash "
              "directory (induction over the chain): pairwise distinct names, each free when taken and absent initially; every earlier "
              "pair and every initial entry exactly as it was at the end; the directory holds exactly N more pairs; the first 100 same-named "
              "entries are called base, base_1, ... (no random number drawn); a later argument INSIDE the trash directory breaks an earlier pair (kernel-checked, real)")
RULE_SWEEP = ("; directed: one preemption of process 0 at each of its first 70 steps (another process then runs from start to "
              "end) for the scenarios collision / first use / a directory that contains the shared --trash-dir")
RULE = ("seeded random put worlds whose candidate trash directories are pre-populated with 0-120 entries named like the "
        "arguments (pairs, infos without payload, payloads without info incl. dangling symlinks, files vs directories), "
        "with scripted random suffixes beyond the 100th collision (the first number drawn taken, the second free, a payload without info at the third)")


def run(tier, seed):
    ck = Check("C04", tier, seed)
    info = audit("C04")
    n = 300 if tier == "quick" else 4000
    results = run_tasks(eval_task, [{"pid": "C04", "seed": seed, "i": i, "cfg": CFG} for i in range(n)])
    absorb(ck, "C04", results, CFG, "Model.Put")
    try:
        from . import parworlds
        parworlds.add_concurrent(ck, tier, seed, oracles=("C01", "C04", "no-traceback", "exit", "confinement"))
    except ImportError:
        ck.notes.append("concurrent part not built yet")
    return ck.finish(info, LEVEL_NOTE, RULE)


def replay(path):
    from . import parworlds
    rc = parworlds.replay_concurrent("C04", path, oracles=("C01", "C04", "no-traceback", "exit", "confinement"))
    return rc if rc is not None else replay_family("C04", path, CFG)
