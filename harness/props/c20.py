"""C20 — all commands read a trash directory the same way (and the way the spec says).

Four-way differential on one entry: what trash-list prints, what trash-restore offers (and where it
restores to), what trash-rm matches, what trash-empty DAYS compares — for 40+ content templates,
every kind of trash directory, home on the root volume or on its own."""
import datetime
import os
import re
import urllib.parse

from .. import readcheck
from ..core import Check, audit
from ..lean import MachineryError
from ..model import W, cmd_argv, snap_to_state
from ..runner import driver, jsonable, run_tasks, task_rng
from ..sandbox import MODEL_ROOT as R, run_world

LEVEL_NOTE = ("theorems: list, restore, rm and empty factor through the same two parsers (first Path line, first "
              "DeletionDate line, unknown lines ignored) and are handed the same base directory for every kind of trash "
              "directory ($topdir for volume dirs, '/' for the home trash, the same lexical volume for --trash-dir); C20Cmd.commands_agree_on_entry: for one entry of a scanned directory the line of trash-list, the line and destination of trash-restore, the subject of trash-rm and the date of trash-empty DAYS are functions of the same text and base. C20Cmd (whole commands, several trash directories): the stdout of trash-list is the list of meanings (path, date) of the info "
              "files; what trash-restore / offers is a permutation of the same pairs and the chosen entry goes to that very path; trash-rm "
              "removes exactly the entries whose LISTED path matches; trash-empty DAYS removes an entry iff the date LISTED for it is older "
              "(four_way_agreement); an info without Path is never listed yet purged by its date (kernel-checked, real)")
RULE = ("exhaustive product: 49 .trashinfo content templates (4 of them with a look-alike twin entry: NFC/NFD, ligature, letter case) (absolute / relative Path, percent-escapes of every byte class, "
        "lower-case hex, malformed escapes, raw UTF-8 and non-UTF-8 bytes, duplicate keys, extra keys and sections, missing "
        "header, CRLF, lone CR, trailing blanks, 14 date spellings) x 8 trash-dir kinds (home on / , home on its own volume, "
        ".Trash/uid, .Trash-uid, --trash-dir) ; per case five runs (list, restore listing, restore, rm by exact path, empty at "
        "the date boundary) and their mutual consistency")

PATHS = [b"{ABS}/plain", b"{REL}/plain", b"plain", b"{ABS}/with%20space", b"{ABS}/caf%C3%A9", b"{ABS}/caf%c3%a9", b"{ABS}/lat%E9",
         b"{ABS}/raw-caf\xc3\xa9", b"{ABS}/raw-\xff", b"{ABS}/pct%25", b"{ABS}/bad%zz", b"{ABS}/bad%4", b"{ABS}/tail%", b"{ABS}/a+b",
         b"{ABS}/a%2Fb", b"{ABS}/trail ", b"{ABS}/new%0Aline", b"{ABS}/eq=x", b"{ABS}/[b]*?", b"{REL}/deep/er/x", b"{ABS}//double", b"{ABS}/.",
         b"{ABS}/cafe%CC%81.txt", b"{ABS}/caf%C3%A9.txt", b"{ABS}/\xef\xac\x81le", b"{ABS}/CaseName"]
# a neighbour whose path is a different one although it looks the same (other Unicode normalisation form, compatibility
# ligature, letter case): naming one entry by the path trash-list shows must not touch the other
TWINS = {b"{ABS}/cafe%CC%81.txt": b"{ABS}/caf%C3%A9.txt", b"{ABS}/caf%C3%A9.txt": b"{ABS}/cafe%CC%81.txt",
         b"{ABS}/\xef\xac\x81le": b"{ABS}/file", b"{ABS}/CaseName": b"{ABS}/casename"}
DATES = [b"2024-03-01T12:00:00", b"2024-3-1T9:5:7", b"2024-03-01t12:00:00", b"2024-02-30T00:00:00", b"garbage", b"2024-03-01T12:00:00 ",
         b"0001-01-01T00:00:00", b"9999-12-31T23:59:59", None, b"2024-03-01 12:00:00", b"2024-03-01_12:00:00", b"2024-W09-5T12:00:00", b"20240301T120000.000", b"2024-03-01T12:00+01"]
SHAPES = ["std", "crlf", "lone-cr", "no-header", "dup-keys", "extra", "date-first", "no-final-newline"]


def render(shape, path, date):
    p = b"Path=" + path
    d = (b"DeletionDate=" + date) if date is not None else None
    L = [b"[Trash Info]", p] + ([d] if d else [])
    if shape == "crlf":
        return b"\r\n".join(L) + b"\r\n"
    if shape == "lone-cr":
        return b"\r".join(L) + b"\r"
    if shape == "no-header":
        return b"\n".join(L[1:]) + b"\n"
    if shape == "dup-keys":
        return b"\n".join(L + [b"Path=/SBX/other/second", b"DeletionDate=1999-01-01T00:00:00"]) + b"\n"
    if shape == "extra":
        return b"\n".join([L[0], b"X-Key=v", b"# comment"] + L[1:] + [b"", b"[Other Section]", b"Path2=/nope"]) + b"\n"
    if shape == "date-first":
        return b"\n".join([L[0]] + L[2:] + [L[1]]) + b"\n"
    if shape == "no-final-newline":
        return b"\n".join(L)
    return b"\n".join(L) + b"\n"


def cases():
    out = []
    for i, p in enumerate(PATHS):
        out.append(("std", p, DATES[i % 3]))
    for d in DATES:
        out.append(("std", PATHS[0], d))
    for sh in SHAPES[1:]:
        out.append((sh, PATHS[0], DATES[0]))
        out.append((sh, PATHS[1], DATES[1]))
    return out


KINDS = ["home-root", "home-own-volume", "top", "alt", "custom", "home-own-volume-cli", "home-root-cli", "custom-link"]


def one(task):
    shape, ptempl, date, kind = task["shape"], task["path"], task["date"], task["kind"]
    drv = driver()
    w = W()
    uid = 1000
    home = w.dir(R + b"/home/u")
    w.mount(R + b"/vol1")
    env = {"HOME": home}
    cli = kind.endswith("-cli")          # the home trash directory named explicitly with --trash-dir
    if kind.startswith("home-own-volume"):
        w.mount(R + b"/home")
    if kind.startswith("home-"):
        t, base, vol = home + b"/.local/share/Trash", b"/", (R + b"/home" if kind.startswith("home-own-volume") else R)
    elif kind == "top":
        w.dir(R + b"/vol1/.Trash", 0o1777)
        t, base, vol = R + b"/vol1/.Trash/%d" % uid, R + b"/vol1", R + b"/vol1"
    elif kind == "alt":
        t, base, vol = R + b"/vol1/.Trash-%d" % uid, R + b"/vol1", R + b"/vol1"
    elif kind == "custom-link":
        # the --trash-dir is named through a symbolic link that lives on another volume than the directory: every command
        # takes the volume of the name AS SPELLED for relative Paths (list, restore, empty alike)
        t, base, vol = R + b"/vol1/ct", R, R
        w.link(R + b"/to-ct", t)
    else:
        t, base, vol = R + b"/vol1/ct", R + b"/vol1", R + b"/vol1"
    spelled = t if kind != "custom-link" else R + b"/to-ct"
    path = ptempl.replace(b"{ABS}", vol + b"/w").replace(b"{REL}", b"w")
    w.dir(t, 0o700)
    w.dir(t + b"/files", 0o700)
    w.dir(t + b"/info", 0o700)
    w.file(t + b"/info/e.trashinfo", render(shape, path, date), 0o600)
    w.file(t + b"/files/e", b"payload")
    twin = TWINS.get(ptempl)
    tname = b"twin"
    if twin is None and (date is None or shape in ("no-header", "extra")):
        # an entry without a (readable) date is read after a dated one (listed first): nothing of the neighbour's sticks
        twin, tname = b"{ABS}/dated-neighbour", b"a-before"
    if twin:
        w.file(t + b"/info/" + tname + b".trashinfo", render("std", twin.replace(b"{ABS}", vol + b"/w"), b"2024-03-01T12:00:00"), 0o600)
        w.file(t + b"/files/" + tname, b"twin payload")
    w.dir(vol + b"/w")
    meta = {"entries": [], "tdirs": [(t, None)], "profile": "c20", "payload_kinds": ["file"]}
    custom = {"userDirs": [spelled]} if kind in ("custom", "custom-link") or cli else {}

    def run(cmd, opts=None, args=(), stdin=None, envx=None):
        e = dict(env)
        e.update(envx or {})
        wd = w.world(env=e, uid=uid, cwd=R, cmd=cmd, opts=dict(opts or {}), args=list(args), stdin=stdin, meta=meta)
        wd["argv"] = cmd_argv(wd)
        return readcheck.evaluate(wd, drv, oracles=())

    problems, mism = [], []
    rl = run("list", custom)
    mism += [("list", m) for m in rl["mismatch"]]
    out_l = rl["stdout"]
    if twin:
        # the twin's line is the other one
        tl = [l for l in out_l.split(b"\n") if l and not l.endswith(b"/" + os.path.basename(urllib.parse.unquote_to_bytes(twin)))]
        out_l = b"".join(l + b"\n" for l in tl)
    m = re.match(rb"^(\d{4}-\d\d-\d\d \d\d:\d\d:\d\d|\?\?\?\?-\?\?-\?\? \?\?:\?\?:\?\?) (.*)\n$", out_l, re.S)
    tags = ["kind:" + kind, "shape:" + shape]
    if not m:
        tags.append("list:not-listed")
        return {"problems": problems, "mismatch": mism, "tags": tags, "key": (shape, ptempl, date, kind)}
    ldate, lpath = m.group(1), m.group(2)
    ropts = {"path": b"/", "sort": "date"}
    if kind in ("custom", "custom-link") or cli:
        ropts["trashDir"] = spelled
    rr = run("restore", ropts, stdin=b"\n")
    mism += [("restore-listing", m_) for m_ in rr["mismatch"]]
    text = re.sub(rb"What file to restore \[0\.\.\d+\]: ", b"", rr["stdout"])
    if twin:
        # two entries are offered; keep the line of ours, renumbered
        keep = [l for l in text.split(b"\n") if re.match(rb"^ *\d+ ", l) and l.endswith(b" " + lpath)]
        text = b"".join(re.sub(rb"^ *\d+ ", b"   0 ", l) + b"\n" for l in keep) + b"No files were restored\n"
    m2 = re.match(rb"^ *0 (\d{4}-\d\d-\d\d \d\d:\d\d:\d\d|None) (.*)\nNo files were restored\n$", text, re.S)
    if not m2:
        problems.append("listed by trash-list but not offered by trash-restore: %r" % text[:200])
    else:
        rdate, rpath = m2.group(1), m2.group(2)
        if rpath != lpath:
            problems.append("path differs: list %r restore %r" % (lpath, rpath))
        if (rdate == b"None") != ldate.startswith(b"?") or (rdate != b"None" and rdate != ldate):
            problems.append("date differs: list %r restore %r" % (ldate, rdate))
        # restore really goes to that path
        if b"\x00" not in lpath and lpath.startswith(R + b"/") and not lpath.endswith(b"/.") and not twin:
            r2 = run("restore", ropts, stdin=b"0\n")
            mism += [("restore", m_) for m_ in r2["mismatch"]]
            dest = os.path.normpath(lpath)
            if r2["obs_exit"] == 0 and r2["after_state"].get(dest, (None,))[0] != "f":
                problems.append("restored somewhere else than the path shown: %r" % lpath)
    # trash-rm with the exact path shown by list (metacharacters bracketed)
    if kind not in ("custom", "custom-link") and not cli:
        pat = b"".join((b"[" + bytes([c]) + b"]") if c in b"*?[" else bytes([c]) for c in lpath)
        if pat.startswith(b"/"):
            r3 = run("rm", args=[pat])
            mism += [("rm", m_) for m_ in r3["mismatch"]]
            if (t + b"/info/e.trashinfo") in r3["after_state"] and b"\n" not in lpath:
                problems.append("trash-rm does not match the path trash-list shows: %r" % lpath)
            if twin and (t + b"/info/" + tname + b".trashinfo") not in r3["after_state"]:
                problems.append("trash-rm given the path of one entry removed another entry whose path differs: %r" % lpath)
    # trash-empty at the boundary of the date shown by list
    if not ldate.startswith(b"?"):
        d = datetime.datetime.strptime(ldate.decode(), "%Y-%m-%d %H:%M:%S")
        for delta, should in ((0, False), (1, True)):
            try:
                now = d + datetime.timedelta(days=1, seconds=delta)
            except OverflowError:
                continue
            o = dict(custom, days=1, now=[now.year, now.month, now.day, now.hour, now.minute, now.second])
            r4 = run("empty", o, envx={"TRASH_DATE": b"%04d-%02d-%02dT%02d:%02d:%02d" % (now.year, now.month, now.day, now.hour, now.minute, now.second)})
            mism += [("empty", m_) for m_ in r4["mismatch"]]
            purged = (t + b"/info/e.trashinfo") not in r4["after_state"]
            if purged != should:
                problems.append("trash-empty 1 at listed date + 1 day + %d s: purged=%s" % (delta, purged))
    else:
        o = dict(custom, days=0, now=[2030, 1, 1, 0, 0, 0])
        r4 = run("empty", o, envx={"TRASH_DATE": b"2030-01-01T00:00:00"})
        mism += [("empty", m_) for m_ in r4["mismatch"]]
        if (t + b"/info/e.trashinfo") not in r4["after_state"]:
            problems.append("trash-empty DAYS purged an entry trash-list shows as undated")
    out = {"problems": problems, "mismatch": mism, "tags": tags, "key": (shape, ptempl, date, kind), "task": jsonable(dict(task))}
    if problems or mism:
        out["case"] = jsonable({"shape": shape, "path": ptempl, "date": date, "kind": kind, "content": render(shape, path, date)})
    return out


def alias_task(task):
    """ONE trash directory reached through two volumes ($vol2/.Trash-$uid is a symbolic link to $vol1/.Trash-$uid, or the
    same volume is named twice in TRASH_VOLUMES under two spellings): an entry with a relative Path has one location per
    volume the directory is reached through; trash-list prints them all - and each printed path is a path trash-rm matches
    and (restore) the path it is offered under"""
    i = task["i"]
    drv = driver()
    w = W()
    uid = 1000
    home = w.dir(R + b"/home/u")
    v1, v2 = R + b"/vol1", R + b"/vol2"
    w.mount(v1)
    w.mount(v2)
    t = v1 + b"/.Trash-%d" % uid
    w.dir(t, 0o700)
    w.dir(t + b"/files", 0o700)
    w.dir(t + b"/info", 0o700)
    w.file(t + b"/info/e.trashinfo", b"[Trash Info]\nPath=dir/f\nDeletionDate=2021-02-03T04:05:06\n", 0o600)
    w.file(t + b"/files/e", b"payload")
    w.file(t + b"/info/other.trashinfo", b"[Trash Info]\nPath=dir/other\nDeletionDate=2021-02-03T04:05:07\n", 0o600)
    w.file(t + b"/files/other", b"stays")
    w.link(v2 + b"/.Trash-%d" % uid, [b"../vol1/.Trash-%d" % uid, t][i % 2])
    env = {"HOME": home}
    if i % 3 == 2:
        env["TRASH_VOLUMES"] = v1 + b":" + v2
    meta = {"entries": [], "tdirs": [(t, None)], "profile": "c20-alias", "payload_kinds": ["file"]}

    def run(cmd, opts=None, args=(), stdin=None):
        wd = w.world(env=dict(env), uid=uid, cwd=R, cmd=cmd, opts=dict(opts or {}), args=list(args), stdin=stdin, meta=meta)
        wd["argv"] = cmd_argv(wd)
        return readcheck.evaluate(wd, drv, oracles=())
    problems, mism = [], []
    rl = run("list")
    mism += [("list", m) for m in rl["mismatch"]]
    shown = [l.split(b" ", 2)[2] for l in rl["stdout"].split(b"\n") if l.endswith(b"/dir/f")]
    if sorted(shown) != sorted([v1 + b"/dir/f", v2 + b"/dir/f"]):
        problems.append("alias: trash-list shows %r for an entry reached through two volumes" % (shown,))
    for p_ in shown:
        r3 = run("rm", args=[p_])
        mism += [("rm", m) for m in r3["mismatch"]]
        if (t + b"/info/e.trashinfo") in r3["after_state"]:
            problems.append("trash-rm does not match the path trash-list shows: %r" % p_)
        if (t + b"/info/other.trashinfo") not in r3["after_state"]:
            problems.append("trash-rm removed another entry: %r" % p_)
    rr = run("restore", {"path": b"/", "sort": "date"}, stdin=b"\n")
    mism += [("restore-listing", m) for m in rr["mismatch"]]
    for p_ in shown:
        if (b" " + p_ + b"\n") not in rr["stdout"]:
            problems.append("listed by trash-list but not offered by trash-restore: %r" % p_)
    out = {"problems": problems, "mismatch": mism, "tags": ["kind:alias"], "key": ("alias", i), "task": jsonable(dict(task))}
    if problems or mism:
        out["case"] = jsonable({"alias": i, "stdout": rl["stdout"][-400:]})
    return out


def run(tier, seed):
    ck = Check("C20", tier, seed)
    info = audit("C20")
    tasks = [{"shape": s, "path": p, "date": d, "kind": k} for (s, p, d) in cases() for k in KINDS]
    for r in list(run_tasks(one, tasks)) + list(run_tasks(alias_task, [{"i": i} for i in range(6)])):
        if "machinery" in r:
            raise MachineryError(r["machinery"])
        ck.case(r["key"], tags=r["tags"], sample={"case": repr(r["key"])})
        ck.traces += 1
        for step, m in r["mismatch"]:
            ck.disagreement("Model.Cmds (%s) vs trashcli (%s)" % (step, m["what"]), {"task": r.get("task"), "case": r.get("case"), "difference": m})
        for p in r["problems"]:
            ck.violation(p.split(":")[0][:70], {"oracle": "four-way"}, {"task": r.get("task"), "case": r.get("case"), "problem": p})
    ck.exhaustive = True
    return ck.finish(info, LEVEL_NOTE, RULE)


def replay(path):
    import json
    from ..runner import unjsonable
    obj = unjsonable(json.load(open(path)))
    tasks = []
    if isinstance(obj.get("replay"), dict) and obj["replay"].get("task"):
        tasks.append(obj["replay"]["task"])
    tasks += [c["task"] for c in obj.get("disagreeing_cases", []) if c and c.get("task")]
    rc = 0
    for t in tasks:
        r = one(t) if "shape" in t else alias_task(t)
        print(json.dumps({"problems": r["problems"], "mismatch": r["mismatch"], "key": repr(r["key"])}, indent=1, default=repr))
        if r["problems"] or r["mismatch"]:
            print("VIOLATION property=C20 replay=%s" % path)
            rc = 1
    return rc
