"""C12 — trash-rm removes exactly the entries whose original name matches the pattern.

Function level: Model.Glob / rmMatches against fnmatch.fnmatchcase and trashcli.rm.filter.Filter
(exhaustive over small alphabets).  World level (added by rmworlds when available): which pairs a
real trash-rm run removes."""
import itertools
import json
import os

from ..core import Check, audit, import_repo
from ..lean import Driver, hx

LEVEL_NOTE = ("modelled, not verified: fnmatch.translate and the `re` engine of CPython 3.12.1 as encoded in "
              "Model/Glob.lean (validated exhaustively on small alphabets); matching is on code points of "
              "surrogate-escaped names. C12Cmd: the whole command over any list of trash directories: info and payload gone iff the "
              "pattern matches the entry's absolute original location (base name, or whole path for a pattern starting with '/'), "
              "everything else intact; matching laws for all byte strings (literal = byte-for-byte, '*' matches all, directory part "
              "ignored, '?' one code point); only the first argument is a pattern")
RULE = ("exhaustive: every pattern of length <= 4 (quick: <= 3) over {a,B,*,?,[,],!,-,/} x every name of length <= 3 "
        "over {a,b,B,-,/,],[} plus the diagonal (name or path equal to the pattern text) through Filter.matches; plus seeded random longer patterns/names with non-ASCII and "
        "invalid UTF-8; distinct by (pattern, name); every case is non-trivial (reaches the matcher)")
PAT_ALPHA = "aB*?[]!-/"
NAME_ALPHA = "abB-/]["


def run(tier, seed):
    ck = Check("C12", tier, seed)
    info = audit("C12")
    import_repo()
    from trashcli.rm.filter import Filter
    import fnmatch
    drv = Driver()
    try:
        maxp = 3 if tier == "quick" else 4
        pats = ["".join(p) for n in range(1, maxp + 1) for p in itertools.product(PAT_ALPHA, repeat=n)]
        names = ["".join(p) for n in range(0, 4) for p in itertools.product(NAME_ALPHA, repeat=n)]
        rng = ck.rng
        reqs, exp = [], []
        for p in pats:
            ns = names if (tier == "thorough" and len(p) <= 3) or len(p) <= 2 else rng.sample(names, 40)
            # the diagonal: the entry's name (or whole path) is the pattern text itself
            for n in list(ns) + [p, "/" + p, "/q" + p]:
                loc = "/d/" + n if not n.startswith("/") else n
                reqs.append({"op": "rmMatches", "pat": hx(p.encode()), "loc": hx(loc.encode())})
                try:
                    e = Filter(p).matches(loc)
                except IndexError:
                    e = "crash"
                exp.append((p.encode(), loc.encode(), e))
        extra = [b"caf\xc3\xa9", b"\xff", b"\xe2\x82\xac", b"*", b"?", b"[!", b"]", b"\\", b"^", b"a-c", b"[a-c]", b"[!a-c]",
                 b"[]]", b"[^a]", b"[--a]", b"[a-]", b"&&", b"~~", b"||", b".", b"\n"]
        for _ in range(4000 if tier == "quick" else 60000):
            p = b"".join(rng.choice(extra + [b"a", b"b", b"B", b"*", b"?"]) for _ in range(rng.randint(1, 6)))
            n = b"/x/" + b"".join(rng.choice([b"a", b"b", b"B", b"c", b"-", b"]", b"\\", b"^", b"caf\xc3\xa9", b"\xff",
                                              b"\xe2\x82\xac", b".", b"\n", b"&", b"~", b"|"]) for _ in range(rng.randint(0, 5)))
            if rng.random() < 0.15:
                n = rng.choice([b"/x/" + p, p if p.startswith(b"/") else b"/" + p])
            reqs.append({"op": "rmMatches", "pat": hx(p), "loc": hx(n)})
            try:
                e = Filter(os.fsdecode(p)).matches(os.fsdecode(n))
            except IndexError:
                e = "crash"
            exp.append((p, n, e))
        res = drv.ask_many(reqs)
        for (p, n, e), r in zip(exp, res):
            ck.case((p, n), tags=["match:" + str(e), "pattern-has:" + ("class" if b"[" in p else "star" if b"*" in p else "qmark" if b"?" in p else "literal")],
                    sample={"pattern": repr(p), "location": repr(n), "impl": e, "model": r["r"]})
            if r["r"] != e:
                ck.disagreement("Model.Glob.rmMatches vs trashcli.rm.filter.Filter.matches",
                                {"kind": "match", "pat": hx(p), "loc": hx(n), "impl": e, "model": r["r"]})
            # oracle: the subject rule of the property, checked on the implementation against fnmatchcase
            subj = n if p[:1] == b"/" else n.rsplit(b"/", 1)[-1]
            want = fnmatch.fnmatchcase(os.fsdecode(subj), os.fsdecode(p))
            if e != "crash" and e != want:
                ck.violation("subject-rule", {"kind": "match"}, {"kind": "match", "pat": hx(p), "loc": hx(n), "impl": e, "want": want})
        ck.traces = len(res)
        ck.exhaustive = False
        ck.extra["exhaustive_subdomains"] = ["patterns <= %d over %r x names <= 3 over %r (sampled 40 names per pattern beyond length 2 in quick)" % (maxp, PAT_ALPHA, NAME_ALPHA)]
        from . import rmworlds
        rmworlds.add_world_level(ck, tier, seed)
    except ImportError:
        ck.notes.append("world-level part not built yet")
    finally:
        drv.close()
    return ck.finish(info, LEVEL_NOTE, RULE)


def replay(path):
    import_repo()
    from trashcli.rm.filter import Filter
    obj = json.load(open(path))
    drv = Driver()
    rc = 0
    for c in (obj.get("disagreeing_cases") or [obj.get("replay", obj)]):
        if c.get("kind") != "match":
            continue
        p, n = bytes.fromhex(c["pat"]), bytes.fromhex(c["loc"])
        e = Filter(os.fsdecode(p)).matches(os.fsdecode(n))
        m = drv.ask({"op": "rmMatches", "pat": c["pat"], "loc": c["loc"]})["r"]
        print(repr(p), repr(n), "impl", e, "model", m)
        if e != m:
            rc = 1
    drv.close()
    return rc
