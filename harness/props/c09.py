"""C09 — trash-list shows exactly what is in the trash after any history of commands.

Seeded histories of trash-put / trash-restore / trash-rm / trash-empty over several volumes; after
every step: (a) model and implementation made the same transition from the same state, (b) the
step's own effect oracle holds (C01 for put), (c) trash-list's output equals, as a multiset, the
Lean Spec's independent reading (Effects.bagLines) of the on-disk trash directories in scope."""
import datetime
import os
import re
import time
from urllib.parse import unquote_to_bytes

from .. import putcheck, readcheck
from ..core import Check, audit
from ..lean import MachineryError, hx
from ..model import W, cmd_argv, put_argv, snapshot_rows, world_from_state
from ..runner import driver, jsonable, run_tasks, task_rng
from ..sandbox import CLOCK_T0, MODEL_ROOT as R
from ..worldgen import make_entry

LEVEL_NOTE = ("theorems: trash-list is a function of the bag (one event per info name, no call); the put core adds exactly one "
              "element to the bag of the chosen directory and leaves every other bag alone; purging and restoring remove "
              "exactly the selected element; C09Hist.history: by induction over ANY history of put/purge/restore operations "
              "on a trash directory (invariant TrashInv + local conditions Op.ok) the bag is the fold of the abstract "
              "add/remove steps, and list_after_history: the listing shows exactly the live names. Same-volume restores only; "
              "the string-level front of each command (which canonical arguments a command line denotes) is validated by "
              "the history runs, where every step is also judged by the effect oracle")
RULE = ("seeded histories (quick: 40 histories x <= 10 steps, thorough: 500 x <= 30) of put / restore / rm / empty / list over "
        "2-3 volumes with repeated names, nested paths, entries restored and trashed again, half of them starting from a trash that "
        "already holds entries written by other implementations (CRLF, lone CR, extra keys, no final newline); after every step the listing is "
        "compared with Effects.bagLines of the on-disk state, the step's effect with Effects.check (which entries may disappear) "
        "and the transition with the model's")
NAMES = [b"a", b"b", b"a b", b"doc.txt", b"caf\xc3\xa9", b"cafe\xcc\x81", "\u212bngstro\u0308m".encode(), b"x%y", b"new\nline", b"d1", b"...", b"....", b"x.trashinfo"]


def _text(raw):
    """as a text-mode read sees it (universal newlines)"""
    return raw.replace(b"\r\n", b"\n").replace(b"\r", b"\n")


def trash_entries(state):
    """(tdir, name, unquoted Path) of every info file with a Path line, found structurally"""
    out = []
    for p, v in state.items():
        m = re.match(rb"^(.*)/info/([^/]+)\.trashinfo$", p)
        if m and v[0] == "f":
            pm = re.search(rb"(?m)^Path=(.*)$", _text(v[1]))
            if pm:
                out.append((m.group(1), m.group(2), unquote_to_bytes(pm.group(1))))
    return out


def meta_entries(state, home):
    """the well-formed entries of the state as the effect oracle wants them: absolute location, recorded date"""
    out, tdirs = [], set()
    for t, n, rec in trash_entries(state):
        m = re.match(rb"^(.*)/\.Trash(-\d+|/\d+)$", t)
        base = (m.group(1) or b"/") if m else None
        loc = rec if rec.startswith(b"/") or base is None else base.rstrip(b"/") + b"/" + rec
        dm = re.search(rb"(?m)^DeletionDate=(.*)$", _text(state[t + b"/info/" + n + b".trashinfo"][1]))
        out.append({"tdir": t, "name": n, "loc": loc, "rec": rec, "date": dm.group(1).decode("latin-1") if dm else "", "base": base})
        tdirs.add(t)
    return out, sorted(tdirs)


def with_meta(wd, state, home):
    ents, tdirs = meta_entries(state, home)
    wd["meta"] = {"entries": ents, "tdirs": [(t, "dir") for t in tdirs], "profile": "c09", "payload_kinds": [], "sentinels": []}
    return wd


def history(task):
    rng = task_rng("C09", task["seed"], task["i"])
    drv = driver()
    w = W()
    uid = 1000
    home = w.dir(R + b"/home/u")
    vols = [R, w.mount(R + b"/vol1")]
    if rng.random() < 0.5:
        vols.append(w.mount(R + b"/vol2"))
    if rng.random() < 0.5:
        w.dir(R + b"/vol1/.Trash", rng.choice([0o1777, 0o1777, 0o1770, 0o1700, 0o1750]))     # sticky, whatever the others may do
    if rng.random() < 0.3:
        w.dir(R + b"/.Trash", rng.choice([0o1777, 0o777, 0o1770, 0o1700]))
    dirs = [home + b"/docs", home + b"/docs/sub", R + b"/vol1/stuff", R + b"/vol1/stuff/deep"] + ([R + b"/vol2/x"] if len(vols) > 2 else [])
    for d in dirs:
        w.dir(d)
    if rng.random() < 0.5:
        # the history does not start from an empty trash: entries written by other implementations of the specification
        # (CRLF or lone-CR line ends, extra keys and sections, no final newline) are already there
        from .c20 import render
        t = rng.choice([home + b"/.local/share/Trash", R + b"/vol1/.Trash-1000"])
        w.dir(t, 0o700)
        w.dir(t + b"/files", 0o700)
        w.dir(t + b"/info", 0o700)
        for j in range(rng.randint(1, 2)):
            shape = rng.choice(["crlf", "lone-cr", "extra", "no-final-newline", "dup-keys", "crlf"])
            path = (home + b"/docs/" if t.startswith(home) else b"stuff/") + b"from%%20elsewhere%d" % j
            w.file(t + b"/info/foreign%d.trashinfo" % j, render(shape, path, b"2024-03-01T12:00:0%d" % j), 0o600)
            w.file(t + b"/files/foreign%d" % j, b"foreign payload")
    crowded = task["i"] % 7 == 3
    if crowded:
        # a well-filled trash: two-digit indices at the restore prompt, ranges across the digit boundary
        t = home + b"/.local/share/Trash"
        w.dir(t, 0o700)
        w.dir(t + b"/files", 0o700)
        w.dir(t + b"/info", 0o700)
        for j in range(12):
            w.file(t + b"/info/many%02d.trashinfo" % j, b"[Trash Info]\nPath=" + home + b"/docs/many%02d\nDeletionDate=2023-05-%02dT08:00:00\n" % (j, j + 1), 0o600)
            w.file(t + b"/files/many%02d" % j, b"one of many %d" % j)
    base = w.world(env={"HOME": home}, uid=uid, cwd=home, cmd="list", opts={}, args=[], stdin=None,
                   meta={"entries": [], "tdirs": [], "profile": "c09", "payload_kinds": []})
    state = {n["p"]: (n["k"], n.get("data", b""), n.get("mode", 0), n.get("mtime", 0), n.get("target", b"")) for n in base["nodes"]}
    state = {p: (("d", b"", v[2], v[3], b"") if v[0] == "d" else (("l", b"", 0, 0, v[4]) if v[0] == "l" else v)) for p, v in state.items()}
    steps, problems, mism = [], [], []
    nsteps = task["steps"]
    serial = 0
    for k in range(nsteps):
        ents = trash_entries(state)
        cmd = rng.choice(["put", "put", "put", "restore", "rm", "empty"] if ents else ["put"])
        if crowded and k == 0:
            cmd = "restore"
        if cmd == "put":
            d = rng.choice(dirs)
            name = rng.choice(NAMES)
            serial += 1
            p = d + b"/" + name
            st = dict(state)
            if p not in st:
                if rng.random() < 0.3:
                    st[p] = ("d", b"", 0o755, 0, b"")
                    st[p + b"/in"] = ("f", b"in %d" % serial, 0o644, 0, b"")
                else:
                    st[p] = ("f", b"content %d" % serial, 0o644, 0, b"")
            wd = world_from_state(base, st, cmd="put", cwd=d, args=[name if not name.startswith(b"-") else b"./" + name], opts={},
                                  stdin=None, randints=[5, 6, 7], meta=[{"class": "entry", "kind": "file", "spelling": "rel", "entry": p}])
            wd["argv"] = put_argv({}, wd["args"])
            r = putcheck.evaluate(wd, drv, oracles=("C01",))
            if not r["oracle"]["C01"]["ok"]:
                problems.append("step %d put: %s" % (k, r["oracle"]["C01"]["verdict"]))
        elif cmd == "restore":
            t, n, loc = rng.choice(ents)
            wd = world_from_state(base, state, cmd="restore", cwd=R, opts={"path": b"/", "sort": rng.choice(["date", "path", "none"])},
                                  stdin=(rng.choice([b"0", b"0", b"1", b"0-1", b""]) if len(ents) < 12 else
                                         rng.choice([b"2-10", b"9-11,0-1", b"3-11"] + ([] if k == 0 else [b"10-11", b"0"]))) + b"\n")
            wd["argv"] = cmd_argv(wd)
            r = readcheck.evaluate(with_meta(wd, state, home), drv, oracles=("effects",))
            e = r["oracle"].get("effects")
            if e is not None and not e["ok"]:
                problems.append("step %d %s: %s" % (k, cmd, e["verdict"]))
        elif cmd == "rm":
            t, n, loc = rng.choice(ents)
            pat = rng.choice([os.path.basename(loc) or b"*", b"*", b"a*", b"nomatch", (os.path.basename(loc) or b"x") + b"/", b"*/", loc + b"/"])
            pat = b"".join((b"[" + bytes([c]) + b"]") if c in b"[" else bytes([c]) for c in pat)
            wd = world_from_state(base, state, cmd="rm", cwd=home, args=[pat], opts={}, stdin=None)
            wd["argv"] = cmd_argv(wd)
            r = readcheck.evaluate(with_meta(wd, state, home), drv, oracles=("effects",))
            e = r["oracle"].get("effects")
            if e is not None and not e["ok"]:
                problems.append("step %d %s: %s" % (k, cmd, e["verdict"]))
        else:
            # (the sandbox clock of trash-put starts at CLOCK_T0 and moves one hour per mutating call)
            now = CLOCK_T0 + datetime.timedelta(days=rng.choice([0, 1, 2, 3, 30]), hours=rng.choice([0, 5, 13]))
            days = rng.choice([None, 0, 1, 1, 3])
            o = {"now": [now.year, now.month, now.day, now.hour, now.minute, now.second]}
            if days is not None:
                o["days"] = days
            env = dict(base["env"], TRASH_DATE=now.strftime("%Y-%m-%dT%H:%M:%S").encode())
            wd = world_from_state(base, state, cmd="empty", cwd=home, opts=o, env=env, stdin=None)
            wd["argv"] = cmd_argv(wd)
            r = readcheck.evaluate(with_meta(wd, state, home), drv, oracles=("effects",))
            e = r["oracle"].get("effects")
            if e is not None and not e["ok"]:
                problems.append("step %d %s: %s" % (k, cmd, e["verdict"]))
        steps.append(cmd)
        mism += [("step %d %s" % (k, cmd), m) for m in r["mismatch"]]
        if r.get("exc"):
            problems.append("step %d %s: uncaught %s" % (k, cmd, r["exc"]))
        state = r["after_state"]
        # the listing is the bag
        wl = world_from_state(base, state, cmd="list", cwd=home, opts={}, stdin=None)
        wl["argv"] = []
        rl = readcheck.evaluate(wl, drv, oracles=("bag",))
        mism += [("step %d list" % k, m) for m in rl["mismatch"]]
        b = rl["oracle"].get("bag")
        if b is not None and not b["ok"]:
            problems.append("after step %d (%s): trash-list output is not the bag" % (k, cmd))
        if problems or mism:
            break
    out = {"steps": steps, "problems": problems, "mismatch": mism, "entries_at_end": len(trash_entries(state)), "task": dict(task)}
    if problems or mism:
        out["last_world"] = jsonable({k_: v for k_, v in wd.items() if k_ != "meta"})
    return out


def run(tier, seed):
    ck = Check("C09", tier, seed)
    info = audit("C09")
    n, steps = (40, 10) if tier == "quick" else (500, 30)
    for r in run_tasks(history, [{"seed": seed, "i": i, "steps": steps} for i in range(n)]):
        if "machinery" in r:
            raise MachineryError(r["machinery"])
        ck.case(tuple(r["steps"]) + (r["entries_at_end"],), nontrivial=len(r["steps"]) > 1,
                tags=["step:" + s for s in r["steps"]] + ["history-length:%d" % len(r["steps"])], sample={"steps": r["steps"]})
        ck.traces += len(r["steps"])
        for step, m in r["mismatch"]:
            ck.disagreement("Model vs trashcli in a history (%s: %s)" % (step, m["what"]), {"task": r["task"], "steps": r["steps"], "world": r.get("last_world"), "difference": m})
        for p in r["problems"]:
            ck.violation(re.sub(r"\d+", "N", p)[:70], {"oracle": "history"}, {"task": r["task"], "steps": r["steps"], "problem": p, "world": r.get("last_world")})
    # histories with simultaneous puts: 2-3 real trash-put processes interleaved call by call, then trash-list
    from . import parworlds
    parworlds.add_concurrent(ck, tier, seed + 303, oracles=("C01", "C09-listing", "no-traceback", "exit", "confinement"),
                             n_quick=60, n_thorough=1000, follow="list")
    return ck.finish(info, LEVEL_NOTE, RULE)


def replay(path):
    from . import parworlds
    rc = parworlds.replay_concurrent("C09", path, oracles=("C01", "C09-listing", "no-traceback", "exit", "confinement"))
    if rc is not None:
        return rc
    import json
    obj = json.load(open(path))
    tasks = []
    if isinstance(obj.get("replay"), dict) and obj["replay"].get("task"):
        tasks.append(obj["replay"]["task"])
    tasks += [c["task"] for c in obj.get("disagreeing_cases", []) if c and c.get("task")]
    rc = 0
    for t in tasks:
        r = history(t)
        print(json.dumps({"steps": r["steps"], "problems": r["problems"], "mismatch": r["mismatch"]}, indent=1, default=repr))
        if r["problems"] or r["mismatch"]:
            print("VIOLATION property=C09 replay=%s" % path)
            rc = 1
    return rc
