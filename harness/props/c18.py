"""C18 — trash-put acts on the named entry itself and never follows a final symlink."""
from ..putfamily import replay_family, run_family

CFG = {"oracles": ("C18", "C01"), "violations": ("C18", "C18-link-not-trashed", "C18-slash"), "profile": "links", "states": False}
LEVEL_NOTE = ("theorems: string layer (normpath never leaves a trailing slash, the last component survives), kernel "
              "resolution does not follow a final symlink, the core moves the link node and frames its target; the "
              "restore half (same link comes back) is checked by C02's pipelines; C18Cmd (whole runs of trash-put): "
              "put_trailing_slashes_any_oracle (P/n and P/n/// are the same run whenever the slashed spelling exists for lstat), "
              "put_link_home_partial / _first_use_partial (files/n IS the link node, nothing below it, Path = the link's own location, "
              "everything else unchanged), put_link_volume_follows_link_not_target(_other) (the trash directory is on the link's "
              "device, nothing on any other device changes), put_link_trailing_slash_dir_target, put_through_link_then_link (two "
              "arguments in one run), put_link_restore_identity; _partial because 'dangling/' and 'link-to-file/' do not exist for "
              "lstat and are refused untouched (kernel-checked counterexamples, real behaviour)")
RULE = ("seeded random put worlds biased to symlink arguments: link to file / dir / nothing / absolute target / another "
        "link / the top directory of another volume, 0-3 trailing slashes, an entry reached through a cross-volume link followed by "
        "that link itself in one run, reached through a symlinked parent, link and target on "
        "different volumes; oracle: a link is trashed whenever C07.expected names a usable trash directory, "
        "payload is the same link, target subtree untouched, recorded Path is the link's location with only the parent "
        "resolved (relative to $topdir in volume trash dirs); restore half: trashed links (most of them dangling as seen from "
        "files/) restored over free and occupied locations with and without --overwrite come back as the same link")


def restore_tweak(world, rng):
    """the restore half: trashed entries that are symbolic links (relative, absolute, dangling - most do not resolve from
    inside files/), destinations of every kind in the way, with and without --overwrite"""
    from .c06 import tweak as dest_tweak
    ow = rng.random() < 0.6
    world["opts"]["overwrite"] = ow
    world = dest_tweak(world, rng)
    world["opts"]["overwrite"] = ow and not any(e.get("dup") for e in world["meta"]["entries"])
    nodes = {n["p"]: n for n in world["nodes"]}
    for e in world["meta"]["entries"]:
        pay = e["tdir"] + b"/files/" + e["name"]
        if rng.random() < 0.8:
            for q in [q for q in nodes if q == pay or q.startswith(pay + b"/")]:
                del nodes[q]
            for n_ in nodes.values():
                if n_.get("hardlink") == pay:
                    n_.pop("hardlink")          # (no longer the same file as the payload)
            nodes[pay] = {"p": pay, "k": "l", "target": rng.choice([b"d1", b"../sibling", b"nowhere", b"/SBX/outside/sentinel",
                                                                      b"/SBX/outside", b"./x/../y"])}
    world["nodes"] = sorted(nodes.values(), key=lambda n: n["p"])
    from ..model import cmd_argv
    world["argv"] = cmd_argv(world)
    return world


RESTORE_CFG = {"cmds": ["restore"], "oracles": ("effects", "listing", "exit"), "violations": ("effects",), "profile": "clean",
               "states": False, "tweak": restore_tweak}


def run(tier, seed):
    from ..core import Check, audit
    from ..putfamily import absorb, eval_task, search_failing_input
    from ..readfamily import add_worlds
    from ..runner import run_tasks
    ck = Check("C18", tier, seed)
    info = audit("C18")
    n = 400 if tier == "quick" else 6000
    absorb(ck, "C18", run_tasks(eval_task, [{"pid": "C18", "seed": seed, "i": i, "cfg": CFG} for i in range(n)]), CFG, "Model.Put")
    search_failing_input(ck, "C18", seed, CFG, n, "Model.Put")
    # "Restoring it recreates the same link": trashed links coming back over free and occupied locations
    add_worlds(ck, "C18r", seed, RESTORE_CFG, 200 if tier == "quick" else 3000)
    return ck.finish(info, LEVEL_NOTE, RULE)


def replay(path):
    import json
    obj = json.load(open(path))
    rp = obj.get("replay") if isinstance(obj.get("replay"), dict) else {}
    w = rp.get("world") or next((c.get("world") for c in obj.get("disagreeing_cases", []) if c and c.get("world")), None)
    if w and w.get("cmd") == "restore":
        from ..readfamily import replay_family as read_replay
        return read_replay("C18", path, RESTORE_CFG)
    return replay_family("C18", path, CFG)
