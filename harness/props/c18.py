"""C18 — trash-put acts on the named entry itself and never follows a final symlink."""
from ..putfamily import replay_family, run_family

CFG = {"oracles": ("C18", "C01"), "violations": ("C18", "C18-link-not-trashed"), "profile": "links", "states": False}
LEVEL_NOTE = ("theorems: string layer (normpath never leaves a trailing slash, the last component survives), kernel "
              "resolution does not follow a final symlink, the core moves the link node and frames its target; the "
              "restore half (same link comes back) is checked by C02's pipelines")
RULE = ("seeded random put worlds biased to symlink arguments: link to file / dir / nothing / absolute target / another "
        "link / the top directory of another volume, 0-3 trailing slashes, reached through a symlinked parent, link and target on "
        "different volumes; oracle: a link is trashed whenever C07.expected names a usable trash directory, "
        "payload is the same link, target subtree untouched, recorded Path is the link's location with only the parent "
        "resolved (relative to $topdir in volume trash dirs)")


def run(tier, seed):
    return run_family("C18", tier, seed, CFG, 400, 6000, LEVEL_NOTE, RULE)


def replay(path):
    return replay_family("C18", path, CFG)
