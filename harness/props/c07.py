"""C07 — trash-put picks the trash dir the spec prescribes, on the file's own volume."""
from ..core import Check, audit
from ..putfamily import absorb, eval_task, replay_family, search_failing_input
from ..runner import run_tasks

CFG = {"oracles": ("C07", "C08", "C01"), "violations": ("C07",), "profile": "single", "states": False}
CFG_MULTI = dict(CFG, profile="mixed")
LEVEL_NOTE = ("theorems: home path from the environment (empty XDG_DATA_HOME = unset), candidate order, gates, rejected "
              "candidates are left untouched, created directories are 0700, the lexical volume ascent returns the device "
              "root on plain canonical paths; the choice as a whole is checked on the implementation against an "
              "independent table (C07.expected) written on devices and canonical paths")
RULE = ("seeded single-argument worlds over the configuration lattice: home on / or on its own volume, 1-3 extra volumes "
        "incl. a nested mount, .Trash in {absent, sticky, non-sticky, symlink to sticky / non-sticky, file} with and "
        "without .Trash/uid, .Trash-uid in {absent, dir, file, symlink to another volume}, XDG_DATA_HOME set / unset / "
        "empty / on another volume, HOME unset, uid in {0,1000,65534}, --trash-dir, --home-fallback with/without the "
        "environment switch, files reached through symlinks crossing volumes, symbolic links that do not resolve on the way "
        "to a trash directory; plus multi-argument worlds (arguments on different volumes in one run) where each "
        "argument is judged on its own against C07.expected; plus 2-3 real trash-put processes using a trash directory for the "
        "first time at the same moment (interleaved call by call): each succeeds, into the prescribed directory")


def run(tier, seed):
    ck = Check("C07", tier, seed)
    info = audit("C07")
    n, nm = (600, 300) if tier == "quick" else (10000, 5000)
    absorb(ck, "C07", run_tasks(eval_task, [{"pid": "C07", "seed": seed, "i": i, "cfg": CFG} for i in range(n)]), CFG, "Model.Put")
    absorb(ck, "C07", run_tasks(eval_task, [{"pid": "C07m", "seed": seed, "i": i, "cfg": CFG_MULTI} for i in range(nm)]),
           CFG_MULTI, "Model.Put")
    cfg_states = dict(CFG, states=True, violations=tuple(CFG["violations"]) + ("C07-private",))
    absorb(ck, "C07", run_tasks(eval_task, [{"pid": "C07s", "seed": seed, "i": i, "cfg": cfg_states} for i in range(80 if tier == "quick" else 1200)]),
           cfg_states, "Model.Put")
    search_failing_input(ck, "C07", seed, CFG, n, "Model.Put")
    # "created on demand": several trash-put processes using a trash directory for the first time at the same moment -
    # whoever loses the race to create it still finds it usable
    from . import parworlds
    parworlds.add_concurrent(ck, tier, seed + 707, oracles=("C07",), n_quick=80, n_thorough=2000)
    return ck.finish(info, LEVEL_NOTE, RULE)


def replay(path):
    from . import parworlds
    rc = parworlds.replay_concurrent("C07", path, oracles=("C07",))
    if rc is not None:
        return rc
    return replay_family("C07", path, CFG)
