"""C07 — trash-put picks the trash dir the spec prescribes, on the file's own volume."""
from ..putfamily import replay_family, run_family

CFG = {"oracles": ("C07", "C08", "C01"), "violations": ("C07",), "profile": "single", "states": False}
LEVEL_NOTE = ("theorems: home path from the environment (empty XDG_DATA_HOME = unset), candidate order, gates, rejected "
              "candidates are left untouched, created directories are 0700, the lexical volume ascent returns the device "
              "root on plain canonical paths; the choice as a whole is checked on the implementation against an "
              "independent table (C07.expected) written on devices and canonical paths")
RULE = ("seeded single-argument worlds over the configuration lattice: home on / or on its own volume, 1-3 extra volumes "
        "incl. a nested mount, .Trash in {absent, sticky, non-sticky, symlink to sticky / non-sticky, file} with and "
        "without .Trash/uid, .Trash-uid in {absent, dir, file, symlink to another volume}, XDG_DATA_HOME set / unset / "
        "empty / on another volume, HOME unset, uid in {0,1000,65534}, --trash-dir, --home-fallback with/without the "
        "environment switch, files reached through symlinks crossing volumes")


def run(tier, seed):
    return run_family("C07", tier, seed, CFG, 600, 10000, LEVEL_NOTE, RULE)


def replay(path):
    return replay_family("C07", path, CFG)
