"""C07 — trash-put picks the trash dir the spec prescribes, on the file's own volume."""
from ..core import Check, audit
from ..putfamily import absorb, eval_task, replay_family, search_failing_input
from ..runner import run_tasks

CFG = {"oracles": ("C07", "C08", "C01"), "violations": ("C07",), "profile": "single", "states": False}
CFG_MULTI = dict(CFG, profile="mixed")
LEVEL_NOTE = ("theorems: home path from the environment (empty XDG_DATA_HOME = unset), candidate order, gates, rejected "
              "candidates are left untouched, created directories are 0700, the lexical volume ascent returns the device "
              "root on plain canonical paths; the choice as a whole is checked on the implementation against an "
              "independent table (C07.expected) written on devices and canonical paths")
RULE = ("seeded single-argument worlds over the configuration lattice: home on / or on its own volume, 1-3 extra volumes "
        "incl. a nested mount, .Trash in {absent, sticky, non-sticky, symlink to sticky / non-sticky, file} with and "
        "without .Trash/uid, .Trash-uid in {absent, dir, file, symlink to another volume}, XDG_DATA_HOME set / unset / "
        "empty / on another volume, HOME unset, uid in {0,1000,65534}, --trash-dir, --home-fallback with/without the "
        "environment switch, files reached through symlinks crossing volumes, symbolic links that do not resolve on the way "
        "to a trash directory; plus multi-argument worlds (arguments on different volumes in one run) where each "
        "argument is judged on its own against C07.expected; plus 2-3 real trash-put processes using a trash directory for the "
        "first time at the same moment (interleaved call by call): each succeeds, into the prescribed directory")


def twin_mount_world(seed, i):
    """two volumes whose mount points differ only in how an accent is spelled (precomposed / base letter + combining mark):
    two names, two directories, two volumes.  HOME (and its trash) on the first, the file on the second: the home trash is
    not on the file's volume - the volume's own .Trash-$uid is"""
    from ..model import W, put_argv
    from ..runner import task_rng
    from ..sandbox import MODEL_ROOT as R
    rng = task_rng("C07twin", seed, i)
    w = W()
    pair = [("caf\u00e9", "cafe\u0301"), ("\u00c5", "A\u030a"), ("\ud55c", "\u1112\u1161\u11ab")][i % 3]
    a, b_ = (R + b"/mnt/" + x.encode() for x in (pair if (i // 3) % 2 == 0 else pair[::-1]))
    w.dir(R + b"/mnt")
    w.mount(a)
    w.mount(b_)
    home = w.dir(a + b"/home")
    if i % 2:
        t = home + b"/.local/share/Trash"
        w.dir(t, 0o700)
        w.dir(t + b"/files", 0o700)
        w.dir(t + b"/info", 0o700)
    d = w.dir(b_ + b"/stuff")
    name = rng.choice([b"report.txt", b"a b"])
    kind = rng.choice(["file", "tree"])
    if kind == "file":
        w.file(d + b"/" + name, b"data")
    else:
        w.file(d + b"/" + name + b"/in1", b"one")
    opts = {}
    if i % 4 == 3:
        opts["trashDir"] = a + b"/ct"
    cwd = rng.choice([d, home])
    arg = d + b"/" + name if cwd != d else name
    return w.world(env={"HOME": home}, uid=1000, cwd=cwd, cmd="put", args=[arg], opts=opts, argv=put_argv(opts, [arg]), stdin=None,
                   randints=[1, 2, 3], meta=[{"class": "entry", "kind": kind, "spelling": "abs" if arg.startswith(b"/") else "rel", "entry": d + b"/" + name}])


def run(tier, seed):
    ck = Check("C07", tier, seed)
    info = audit("C07")
    n, nm = (600, 300) if tier == "quick" else (10000, 5000)
    absorb(ck, "C07", run_tasks(eval_task, [{"pid": "C07", "seed": seed, "i": i, "cfg": CFG} for i in range(n)]), CFG, "Model.Put")
    absorb(ck, "C07", run_tasks(eval_task, [{"pid": "C07m", "seed": seed, "i": i, "cfg": CFG_MULTI} for i in range(nm)]),
           CFG_MULTI, "Model.Put")
    cfg_states = dict(CFG, states=True, violations=tuple(CFG["violations"]) + ("C07-private",))
    absorb(ck, "C07", run_tasks(eval_task, [{"pid": "C07s", "seed": seed, "i": i, "cfg": cfg_states} for i in range(80 if tier == "quick" else 1200)]),
           cfg_states, "Model.Put")
    absorb(ck, "C07", run_tasks(eval_task, [{"pid": "C07twin", "seed": seed, "i": i, "cfg": CFG, "world": twin_mount_world(seed, i)}
                                            for i in range(12 if tier == "quick" else 48)]), CFG, "Model.Put")
    search_failing_input(ck, "C07", seed, CFG, n, "Model.Put")
    # "created on demand": several trash-put processes using a trash directory for the first time at the same moment -
    # whoever loses the race to create it still finds it usable
    from . import parworlds
    parworlds.add_concurrent(ck, tier, seed + 707, oracles=("C07",), n_quick=80, n_thorough=2000)
    return ck.finish(info, LEVEL_NOTE, RULE)


def replay(path):
    from . import parworlds
    rc = parworlds.replay_concurrent("C07", path, oracles=("C07",))
    if rc is not None:
        return rc
    return replay_family("C07", path, CFG)
