"""world-level part of C13: what a real trash-restore offers and restores"""
from ..readfamily import add_worlds

CFG = {"cmds": ["restore"], "oracles": ("effects", "listing", "exit"), "violations": ("effects", "listing", "exit"),
       "profile": "mixed", "states": False}


def nested_pair_world(seed, i):
    """entries that depend on each other: a file trashed from inside a directory (older), then the directory itself (newer).
    Restoring the file first makes the directory as a by-product and the directory entry is then refused; the reply decides
    the order ('1,0' restores both, '0,1' only the file) - the entries are restored in the order the reply names them"""
    from ..model import W, cmd_argv
    from ..runner import task_rng
    from ..sandbox import MODEL_ROOT as R
    rng = task_rng("C13nest", seed, i)
    w = W()
    home = w.dir(R + b"/home/u")
    t = home + b"/.local/share/Trash"
    w.dir(t, 0o700)
    w.dir(t + b"/files", 0o700)
    w.dir(t + b"/info", 0o700)
    w.dir(R + b"/w")
    d = rng.choice([b"d", b"proj x"])
    rows = [(b"f", R + b"/w/" + d + b"/f", "2021-01-01T00:00:00", False), (d, R + b"/w/" + d, "2021-01-02T00:00:00", True)]
    if i % 3 == 2:
        rows.append((b"other", R + b"/w/other", "2021-01-03T00:00:00", False))
    entries = []
    for nm, loc, date, isdir in rows:
        w.file(t + b"/info/" + nm + b".trashinfo", b"[Trash Info]\nPath=" + loc.replace(b" ", b"%20") + b"\nDeletionDate=" + date.encode() + b"\n", 0o600)
        if isdir:
            w.dir(t + b"/files/" + nm, 0o750)
            w.file(t + b"/files/" + nm + b"/kept", b"stayed in the directory")
        else:
            w.file(t + b"/files/" + nm, b"payload of " + nm)
        entries.append({"tdir": t, "name": nm, "loc": loc, "rec": loc, "date": date, "base": None})
    reply = [b"1,0", b"0,1", b"1-1,0", b"2,1,0", b"1,0-0", b"0-1"][i % 6] if len(rows) == 3 or i % 6 != 3 else b"1,0"
    world = w.world(env={"HOME": home}, uid=1000, cwd=R, cmd="restore", opts={"path": b"/", "sort": "date"}, args=[], stdin=reply + b"\n",
                    meta={"entries": entries, "tdirs": [(t, None)], "profile": "nested-pair", "payload_kinds": ["file", "tree"], "sentinels": []})
    world["argv"] = cmd_argv(world)
    return world


def nested_pair_task(task):
    """model correspondence as everywhere; on top of it the property's own words for the replies that name the directory
    before the file: every denoted index is within the list and both destinations are free when their turn comes, so exactly
    those entries are restored (and the command succeeds)"""
    from ..readfamily import eval_task
    from ..runner import jsonable
    from ..sandbox import run_world
    from ..model import snap_to_state
    world = nested_pair_world(task["seed"], task["i"])
    out = eval_task(dict(task, world=world, i=1))
    reply = world["stdin"].strip()
    order = []
    for part in reply.split(b","):
        a, _, b_ = part.partition(b"-")
        order += list(range(int(a), int(b_ or a) + 1))
    if 0 in order and 1 in order and order.index(1) < order.index(0):
        obs = run_world(world, {})
        after = snap_to_state(obs["after"])
        ents = world["meta"]["entries"]
        t = ents[0]["tdir"]
        problems = []
        for k in sorted(set(order)):
            e = ents[k]
            if e["loc"] not in after:
                problems.append("entry %d (%r) was chosen, its destination was free at its turn, and it is not restored" % (k, e["loc"]))
            if t + b"/info/" + e["name"] + b".trashinfo" in after or t + b"/files/" + e["name"] in after:
                problems.append("entry %d (%r) is still in the trash" % (k, e["name"]))
        if obs.get("exit") not in (0, None):
            problems.append("exit status %r" % (obs.get("exit"),))
        if problems:
            out["bad"].append({"oracle": "reply-order", "verdict": "; ".join(problems),
                               "sig": {"oracle": "reply-order", "cmd": "restore", "verdict": "chosenNotRestored", "restore_class": None}})
            out["world"] = jsonable(world)
            out["stdout"] = repr(obs["stdout"][-1200:])
            out["stderr"] = repr(obs["stderr"][-1200:])
    return out


def add_world_level(ck, pid, tier, seed):
    add_worlds(ck, pid, seed, CFG, 250 if tier == "quick" else 3000)
    from ..readfamily import absorb
    from ..runner import run_tasks
    cfg = dict(CFG, tweak=None, oracles=("listing", "exit"), violations=("listing", "exit", "reply-order"))
    absorb(ck, run_tasks(nested_pair_task, [{"pid": pid, "seed": seed, "i": i, "cfg": cfg} for i in range(12 if tier == "quick" else 60)]), cfg)
    ck.extra["world_level"] = "trash-restore runs with sort modes, path arguments, replies; listing and effects against ground truth"
