"""world-level part of C13: what a real trash-restore offers and restores"""
from ..readfamily import add_worlds

CFG = {"cmds": ["restore"], "oracles": ("effects", "listing", "exit"), "violations": ("effects", "listing", "exit"),
       "profile": "mixed", "states": False}


def add_world_level(ck, pid, tier, seed):
    add_worlds(ck, pid, seed, CFG, 250 if tier == "quick" else 3000)
    ck.extra["world_level"] = "trash-restore runs with sort modes, path arguments, replies; listing and effects against ground truth"
