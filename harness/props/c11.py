"""C11 — purging touches nothing outside the trash directories and follows no symlink."""
from ..core import Check, audit
from ..readfamily import add_worlds, replay_family

CFG = {"cmds": ["rm", "empty", "empty"], "oracles": ("effects",), "violations": ("effects",), "profile": "malformed", "states": False}
LEVEL_NOTE = ("theorems hold for every fault oracle: rmtree / remove_file2 / remove_file_if_exists / remove_file change no "
              "path outside the subtree they are given (plus the mtime of its parent), a symlink payload is unlinked, the "
              "payload path derived from an accepted info name lies under files/; the string-to-canonical resolution of "
              "each path is validated by the correspondence; C11Cmd (whole runs of trash-empty and trash-rm, every fault oracle, every crash state, NO hypothesis on the entries): everything that is not at or below where t/files or t/info of a visited trash directory LEADS is unchanged, files/ and info/ themselves are never removed, nothing is created; the targets of linked payloads are untouched; boundary (real behaviour, kernel-checked): a files/ or info/ that is itself a symbolic link is purged where it leads")
RULE = ("seeded trash worlds (1-5 volumes, home / .Trash/uid / .Trash-uid / --trash-dir) whose payloads include symlinks "
        "(absolute, relative, dangling) to sentinel files and directories outside, trees containing such links, and 14 "
        "kinds of malformed neighbours incl. odd info names; trash-rm with patterns and trash-empty with and without DAYS; "
        "oracle: every path outside files/ and info/ of the trash dirs is byte-for-byte unchanged")


def run(tier, seed):
    ck = Check("C11", tier, seed)
    info = audit("C11")
    add_worlds(ck, "C11", seed, CFG, 250 if tier == "quick" else 4000)
    return ck.finish(info, LEVEL_NOTE, RULE)


def replay(path):
    return replay_family("C11", path, CFG)
