"""C11 — purging touches nothing outside the trash directories and follows no symlink."""
from ..core import Check, audit
from ..readfamily import add_worlds, replay_family

CFG = {"cmds": ["rm", "empty", "empty"], "oracles": ("effects",), "violations": ("effects",), "profile": "malformed", "states": False}
LEVEL_NOTE = ("theorems hold for every fault oracle: rmtree / remove_file2 / remove_file_if_exists / remove_file change no "
              "path outside the subtree they are given (plus the mtime of its parent), a symlink payload is unlinked, the "
              "payload path derived from an accepted info name lies under files/; the string-to-canonical resolution of "
              "each path is validated by the correspondence; C11Cmd (whole runs of trash-empty and trash-rm, every fault oracle, every crash state, NO hypothesis on the entries): everything that is not at or below where t/files or t/info of a visited trash directory LEADS is unchanged, files/ and info/ themselves are never removed, nothing is created; the targets of linked payloads are untouched; boundary (real behaviour, kernel-checked): a files/ or info/ that is itself a symbolic link is purged where it leads")
RULE = ("seeded trash worlds (1-5 volumes, home / .Trash/uid / .Trash-uid / --trash-dir) whose payloads include symlinks "
        "(absolute, relative, dangling) to sentinel files and directories outside, trees containing such links, and 14 "
        "kinds of malformed neighbours incl. odd info names; trash-rm with patterns and trash-empty with and without DAYS; "
        "a trashed tree deeper than the interpreter stack allows (small allowance, 260 levels) with links to the outside at levels the recursive delete never reaches; "
        "oracle: every path outside files/ and info/ of the trash dirs is byte-for-byte unchanged")


def deep_tree_task(task):
    """a trashed tree deeper than the interpreter's stack allows (the allowance is made small instead of the tree huge),
    with symbolic links to a directory outside the trash at levels the recursive delete never reaches: however the purge
    gets on - it dies of a RecursionError on this tree - nothing outside the trash directory changes.  Judged on the real run
    alone."""
    from ..model import W, cmd_argv, snap_to_state
    from ..runner import jsonable, task_rng
    from ..sandbox import MODEL_ROOT as R, run_world
    i = task["i"]
    rng = task_rng("C11deep", task["seed"], i)
    w = W()
    home = w.dir(R + b"/home/u")
    t = home + b"/.local/share/Trash"
    w.dir(t, 0o700)
    w.dir(t + b"/files", 0o700)
    w.dir(t + b"/info", 0o700)
    w.file(R + b"/precious/keep.txt", b"keep")
    w.file(R + b"/precious/sub/inner.txt", b"inner")
    w.file(R + b"/precious/sub/subsub/innermost.txt", b"innermost")
    w.file(t + b"/info/deep.trashinfo", b"[Trash Info]\nPath=" + R + b"/w/deep\nDeletionDate=2020-01-01T00:00:00\n", 0o600)
    depth = 260
    p = t + b"/files/deep"
    w.dir(p)
    for lvl in range(depth):
        if lvl in (1, 130, 200, depth - 1):
            w.link(p + rng.choice([b"/a-link", b"/z-link"]), rng.choice([R + b"/precious", R + b"/precious/"]))
            w.file(p + b"/f", b"a file on the way")
        p += b"/d"
        w.dir(p)
    cmd = ["empty", "rm"][i % 2]
    env, opts, args = {"HOME": home}, {}, []
    if cmd == "empty":
        env["TRASH_DATE"] = b"2024-03-02T12:00:00"
        opts = {"now": [2024, 3, 2, 12, 0, 0]}
    else:
        args = [b"deep"]
    world = w.world(env=env, uid=1000, cwd=R, cmd=cmd, opts=opts, args=args, stdin=None,
                    meta={"entries": [], "tdirs": [(t, None)], "profile": "deep-tree", "payload_kinds": ["tree"], "sentinels": []})
    world["argv"] = cmd_argv(world)
    o = run_world(world, {"reclimit": [100, 140, 180][i % 3]})
    before, after = snap_to_state(o["before"]), snap_to_state(o["after"])
    changed = sorted(q for q in set(before) | set(after) if not q.startswith(t + b"/") and before.get(q) != after.get(q))
    return {"key": (cmd, i), "exc": o.get("exc"), "purged": (t + b"/files/deep") not in after,
            "bad": [{"verdict": "outside the trash directory: " + ", ".join(repr(q) for q in changed[:6]), "exc": o.get("exc"),
                     "stderr": repr(o["stderr"][-300:]), "world": jsonable(world),
                     "directed": {"fn": "deep_tree_task", "task": {"seed": task["seed"], "i": task["i"]}}}] if changed else []}


def run(tier, seed):
    ck = Check("C11", tier, seed)
    info = audit("C11")
    add_worlds(ck, "C11", seed, CFG, 250 if tier == "quick" else 4000)
    from ..runner import run_tasks
    for r in run_tasks(deep_tree_task, [{"seed": seed, "i": i} for i in range(6 if tier == "quick" else 24)]):
        if "machinery" in r:
            from ..lean import MachineryError
            raise MachineryError(r["machinery"])
        ck.case(("deep-tree", r["key"]), tags=["deep-tree:" + ("purged" if r["purged"] else "died:" + str(r["exc"]))])
        for b in r["bad"]:
            ck.violation("deep-tree-purge-stays-inside", {"oracle": "C11-deep-tree"}, b)
    return ck.finish(info, LEVEL_NOTE, RULE)


def replay(path):
    import sys
    from ..core import replay_directed
    rc = replay_directed(sys.modules[__name__], "C11", path)
    if rc is not None:
        return rc
    return replay_family("C11", path, CFG)
