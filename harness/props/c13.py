"""C13 — trash-restore offers the right entries and restores exactly the indices chosen.

Function level: parse_indexes, the scope test and the sort against Model/Index.lean (exhaustive
reply strings over a 10-symbol alphabet).  World level (restoreworlds, when available): what a
real trash-restore prints and restores."""
import datetime
import itertools
import json
import os
import re

from ..runner import run_tasks
from ..core import Check, audit, import_repo
from ..lean import Driver, hx

LEVEL_NOTE = ("modelled, not verified: Python's int() literal syntax, str.split, sorted() stability as encoded in "
              "Model/Index.lean; replies with non-ASCII characters are outside the modelled domain. C13Order: for every oracle the run IS "
              "the fold of restoreOne over the entries at the reply's indices in the reply's order (duplicates included), stopping at the "
              "first failure; permuted replies end in the same file system when the entries are apart; the nested pair shows that an "
              "ascending-order variant is observably different")
RULE = ("exhaustive: every reply of length <= 4 (thorough: <= 5) over {0,1,2,9,-,',',' ',+,a,_} x list lengths {1,3,10}; "
        "all ordered pairs of a 40-path set for the scope test; seeded random entry lists for the three sort modes; "
        "distinct by input; every case reaches the parser / scope test / sorter; world level: restore worlds incl. a well-filled "
        "trash with ranges across the two-digit boundary; prompt race: another command removes a different entry while "
        "trash-restore waits at its prompt (one preemption at each step) - the reply means the list as printed; nested pairs (a file trashed from inside a directory, then the directory) with non-ascending replies: the entries are restored in the order the reply names them")
ALPHA = "0129-, +a_"
INT_RE = re.compile(r"^[ \t\n\r\x0b\x0c\x1c-\x1f]*\+?[0-9]+(_[0-9]+)*[ \t\n\r\x0b\x0c\x1c-\x1f]*$")


def grammar(reply, n):
    """independent reading of the property text: comma-separated indices and inclusive a-b ranges"""
    out = []
    for item in reply.split(","):
        if "-" in item:
            parts = item.split("-")
            if len(parts) != 2 or not INT_RE.match(parts[0]) or not INT_RE.match(parts[1]):
                return None
            a, c = int(parts[0]), int(parts[1])
            out += list(range(a, c + 1)) if c - a < 10000 else [a, c]
        else:
            if not INT_RE.match(item):
                return None
            out.append(int(item))
    if any(i >= n for i in out):
        return None
    return out


PATHS = ["/", "/a", "/a/foo", "/a/foobar", "/a/foo/bar", "/a/foo bar", "/ab", "/a/b/c/d/e", "/a/", "//a", "/a//foo", "/A",
         "/a/foo/", "/café", "/café/x", "/a/foo\n", "/a/fo", "/b", "/b/a", "/a/b", "/a.b", "/a/.", "/a/..", "", "a",
         "a/foo", "/a/foo/bar/baz", "/x y", "/x y/z", "/-", "/-/f", "/a/FOO", "/a/foo.trashinfo", "/%41", "/a/%", "/aa", "/aaa/a",
         "/a/a", "/a/a/a", "/aa/a"]


def prompt_race_task(task):
    """the numbers of the reply refer to the list AS PRINTED: while trash-restore waits at its prompt another command
    (trash-rm, a second trash-restore) takes a different entry out of the trash; the reply still restores the entries that
    were printed at the chosen indices.  One preemption of trash-restore at each of its steps, the other command run from
    start to end there."""
    from ..model import W, cmd_argv, snap_to_state
    from ..runner import jsonable, task_rng
    from ..sandbox import MODEL_ROOT as R, run_concurrent
    rng = task_rng("C13race", task["seed"], task["i"])
    w = W()
    home = w.dir(R + b"/home/u")
    t = home + b"/.local/share/Trash"
    w.dir(t, 0o700)
    w.dir(t + b"/files", 0o700)
    w.dir(t + b"/info", 0o700)
    w.dir(home + b"/work")
    names = [b"a", b"b", b"c", b"d"][:rng.choice([3, 4])]
    for k, nm in enumerate(names):
        w.file(t + b"/info/" + nm + b".trashinfo", b"[Trash Info]\nPath=" + home + b"/work/" + nm + b"\nDeletionDate=2024-01-0%dT10:00:00\n" % (k + 1), 0o600)
        w.file(t + b"/files/" + nm, b"payload " + nm)
    victim = 0                                    # the other command takes entry 0 ...
    chosen = rng.choice([1, len(names) - 1])      # ... the reply names a later one
    other = rng.choice(["rm", "restore"])
    world = w.world(env={"HOME": home}, uid=1000, cwd=home, cmd="restore", opts={}, args=[], argv=[], stdin=None,
                    meta={"entries": [], "tdirs": [], "profile": "race", "payload_kinds": []})
    p0 = {"cwd": home, "cmd": "restore", "args": [], "opts": {"path": b"/", "sort": "path"}, "stdin": b"%d\n" % chosen}
    p0["argv"] = cmd_argv(dict(world, **p0))
    if other == "rm":
        p1 = {"cwd": home, "cmd": "rm", "args": [home + b"/work/" + names[victim]], "opts": {}, "stdin": None}
    else:
        p1 = {"cwd": home, "cmd": "restore", "args": [], "opts": {"path": b"/", "sort": "path"}, "stdin": b"%d\n" % victim}
    p1["argv"] = cmd_argv(dict(world, **p1))
    bad, runs = [], 0
    for k in range(0, 120):
        obs = run_concurrent(world, [p0, p1], [0] * k + [1] * 3000)
        runs += 1
        after = snap_to_state(obs["after"])

        def printed(pr):
            return {int(m_.group(1)): m_.group(2) for m_ in re.finditer(rb"(?m)^ *(\d+) \S+ \S+ (/.*)$", pr["stdout"])}
        want = printed(obs["procs"][0]).get(chosen)
        legit = {want}
        if other == "restore":
            legit.add(printed(obs["procs"][1]).get(victim))
        wrong = [home + b"/work/" + nm for nm in names if home + b"/work/" + nm in after and home + b"/work/" + nm not in legit]
        if want is not None and obs["procs"][0]["exit"] == 0 and (want not in after or wrong):
            bad.append({"preempted_after_steps": k, "other": other, "reply": chosen, "restored_instead": [repr(x) for x in wrong],
                        "chosen_restored": want in after, "stdout": repr(obs["procs"][0]["stdout"][-300:]),
                        "world": jsonable(world), "procs": jsonable([p0, p1])})
            break
        if obs["executed"][:k].count(0) < k:
            break
    return {"key": (other, len(names), chosen, runs), "other": other, "runs": runs, "bad": bad}


def run(tier, seed):
    ck = Check("C13", tier, seed)
    info = audit("C13")
    import_repo()
    from trashcli.restore.restore_asking_the_user import parse_indexes, InvalidEntry
    from trashcli.restore.trashed_file import TrashedFile
    from trashcli.restore.sort_method import sort_files
    from trashcli.restore.args import Sort
    drv = Driver()
    try:
        maxlen = 4 if tier == "quick" else 5
        reqs, exp = [], []
        for ln in range(0, maxlen + 1):
            for s in itertools.product(ALPHA, repeat=ln):
                s = "".join(s)
                for n in (1, 3, 10, 12):
                    try:
                        r = ("ok", list(parse_indexes(s, n).all_indexes()))
                    except InvalidEntry:
                        r = ("invalid", None)
                    except ValueError:
                        r = ("crash", None)
                    reqs.append({"op": "parseIndexes", "s": hx(s.encode()), "n": n})
                    exp.append((s, n, r))
        for s in ["0-99999999999", "5-3", "1,1,1", " 1 , 2 ", "1_0", "01", "+0", "0x1", "1e1", "١", "1-2-3", "--", "1--2", ",", ""]:
            if any(ord(c) > 127 for c in s):
                continue
            for n in (2, 12):
                try:
                    r = ("ok", list(parse_indexes(s, n).all_indexes()))
                except InvalidEntry:
                    r = ("invalid", None)
                except ValueError:
                    r = ("crash", None)
                reqs.append({"op": "parseIndexes", "s": hx(s.encode()), "n": n})
                exp.append((s, n, r))
        res = drv.ask_many(reqs)
        for (s, n, r), m in zip(exp, res):
            ck.case(("idx", s, n), tags=["reply:" + r[0]], sample={"reply": s, "n": n, "impl": r, "model": m})
            if m["r"] != r[0] or (r[0] == "ok" and m["indexes"] != r[1]):
                ck.disagreement("Model.Index.parseIndexes vs parse_indexes", {"kind": "idx", "reply": s, "n": n, "impl": r, "model": m})
            g = grammar(s, n)
            if (r[0] == "ok") != (g is not None) or (g is not None and r[1] != g):
                ck.violation("reply-grammar", {"kind": "idx"}, {"kind": "idx", "reply": s, "n": n, "impl": r, "grammar": g})
        # scope
        reqs, exp = [], []
        for d, l in itertools.product(PATHS, repeat=2):
            tf = TrashedFile(l, None, "i", "f")
            reqs.append({"op": "inScope", "dir": hx(d.encode()), "loc": hx(l.encode())})
            exp.append((d, l, tf.original_location_matches_path(d)))
        res = drv.ask_many(reqs)
        for (d, l, e), m in zip(exp, res):
            ck.case(("scope", d, l), tags=["scope:" + str(e)])
            if m["r"] != e:
                ck.disagreement("Model.Index.inScope vs original_location_matches_path", {"kind": "scope", "dir": d, "loc": l, "impl": e, "model": m["r"]})
            norm = lambda p: p.startswith("/") and os.path.normpath(p) == p and not p.startswith("//")
            if norm(d) and norm(l):
                want = d == "/" or l == d or l.startswith(d.rstrip("/") + "/")
                cd, cl = [c for c in d.split("/") if c], [c for c in l.split("/") if c]
                want2 = cl[:len(cd)] == cd
                if e != want or e != want2:
                    ck.violation("component-boundary", {"kind": "scope"}, {"kind": "scope", "dir": d, "loc": l, "impl": e, "want": want2})
        # the requested directory: RestoreArgParser against Model.Cmds.restoreScopeDir, for current directories the
        # sandbox cannot stand in (the root directory above all)
        from trashcli.restore.restore_arg_parser import RestoreArgParser
        cwds = ["/", "/p", "/p/q", "/a b", "/caf\u00e9", "/p/", "//", "/p//q", "/p/./q", "/p/../q"]
        args = ["", "x", "x/y", "/", "/a/b", "/a//b/", "..", "../x", ".", "./x", "x/", "a b", "/a/../b", "//a", "///a"]
        reqs, exp = [], []
        for c in cwds:
            for a in args:
                got = RestoreArgParser().parse_restore_args(["trash-restore"] + ([a] if a != "" else []), c).path
                reqs.append({"op": "restoreDir", "cwd": hx(os.fsencode(c)), "path": hx(os.fsencode(a))})
                exp.append((c, a, got))
        for (c, a, got), m in zip(exp, drv.ask_many(reqs)):
            ck.case(("dir", c, a), tags=["requested-dir:" + ("default" if a == "" else "absolute" if a.startswith("/") else "relative")],
                    sample={"cwd": c, "argument": a, "impl": got})
            if bytes.fromhex(m["r"]) != os.fsencode(got):
                ck.disagreement("Model.Cmds.restoreScopeDir vs RestoreArgParser", {"kind": "dir", "cwd": c, "arg": a, "impl": got, "model": m["r"]})
            canon = lambda q: q == "/" or (q.startswith("/") and not q.startswith("//") and os.path.normpath(q) == q)
            # oracle (the property's words): the requested directory, default the current one
            if canon(c):
                if a == "":
                    want = c
                elif a.startswith("/") and canon(a):
                    want = a
                elif not a.startswith("/") and a not in (".", "..") and all(x not in ("", ".", "..") for x in a.split("/")):
                    want = c.rstrip("/") + "/" + a
                else:
                    want = None
                if want is not None and got != want:
                    ck.violation("requested-directory", {"kind": "dir"}, {"kind": "dir", "cwd": c, "arg": a, "impl": got, "want": want})
        # sorting
        rng = ck.rng
        for _ in range(300 if tier == "quick" else 5000):
            k = rng.randint(0, 7)
            es = []
            for i in range(k):
                dt = None if rng.random() < 0.2 else datetime.datetime(rng.choice([1, 2020, 2024]), rng.randint(1, 12), rng.randint(1, 28),
                                                                      rng.randint(0, 23), rng.choice([0, 59]), rng.choice([0, 30]))
                es.append(TrashedFile(rng.choice(["/a", "/b", "/a/b", "/B", "/a b", "/café", "/a2020", "/a/b/c"]), dt, "info%d" % i, "f%d" % i))
            for mode, mname in ((Sort.ByDate, "date"), (Sort.ByPath, "path"), (Sort.DoNot, "none")):
                try:
                    got = [t.info_file for t in sort_files(mode, list(es))]
                except TypeError as ex:
                    got = "crash:" + str(ex)[:40]
                m = drv.ask({"op": "sortEntries", "mode": mname,
                             "entries": [{"loc": hx(t.original_location.encode()), "info": hx(t.info_file.encode()),
                                          "date": None if t.deletion_date is None else
                                          [t.deletion_date.year, t.deletion_date.month, t.deletion_date.day,
                                           t.deletion_date.hour, t.deletion_date.minute, t.deletion_date.second]} for t in es]})
                want = [bytes.fromhex(x).decode() for x in m["r"]]
                ck.case(("sort", mname, tuple((t.original_location, str(t.deletion_date)) for t in es)), nontrivial=k > 1,
                        tags=["sort:" + mname])
                if got != want:
                    ck.disagreement("Model.Index.sortEntries vs sort_files", {"kind": "sort", "mode": mname, "impl": got, "model": want,
                                                                              "entries": [(t.original_location, str(t.deletion_date)) for t in es]})
                if isinstance(got, str):
                    ck.violation("every-sort-mode-works", {"kind": "sort", "mode": mname}, {"kind": "sort", "mode": mname, "impl": got})
        ck.traces = ck.evals
        ck.exhaustive = False
        ck.extra["exhaustive_subdomains"] = ["replies of length <= %d over %r x n in {1,3,10,12}" % (maxlen, ALPHA), "ordered pairs of %d paths" % len(PATHS)]
        from . import restoreworlds
        restoreworlds.add_world_level(ck, "C13", tier, seed)
        for r in run_tasks(prompt_race_task, [{"seed": seed, "i": i} for i in range(3 if tier == "quick" else 40)]):
            if "machinery" in r:
                from ..lean import MachineryError
                raise MachineryError(r["machinery"])
            ck.case(("prompt-race", r["key"]), tags=["prompt-race:" + r["other"]], sample={"runs": r["runs"], "other": r["other"]})
            for b in r["bad"]:
                ck.violation("the-entries-printed-at-the-chosen-indices", {"kind": "prompt-race", "other": r["other"]}, b)
    except ImportError:
        ck.notes.append("world-level part not built yet")
    finally:
        drv.close()
    return ck.finish(info, LEVEL_NOTE, RULE)


def replay(path):
    print(open(path).read()[:3000])
    return 1
