"""C16 — trash-put's exit status tells the truth and arguments are handled independently."""
import json

from .. import putcheck
from ..core import Check, audit
from ..putfamily import absorb, eval_task, replay_family, world_summary
from ..runner import driver, jsonable, run_tasks, task_rng
from ..worldgen import HOME_NAMES, gen_put_world

CFG = {"oracles": ("C16", "C01"), "violations": ("C16",), "profile": "mixed", "states": False}
LEVEL_NOTE = ("theorems about putAll hold under every fault oracle; independence (Props/C16Indep): earlier outcomes never "
              "depend on later arguments, arguments that leave the file system alone are transparent at any position, two "
              "trashed arguments commute at the resolved layer / in the home trash (_partial); the literal first statement "
              "is refuted by kernel-checked counterexamples; the general case is validated differentially (every argument "
              "alone on a copy of the world). C16Seq: for ANY number of arguments and every oracle the run IS the left fold of the "
              "one-argument step, ended only by an uncaught exception; every argument is attempted; exit 0 iff no crash and every outcome is "
              "trashed or a legitimate skip, every failed argument has its own diagnostic; N everyday arguments have the outcomes of their solo runs (_partial)")
RULE = ("seeded random put worlds with 1-4 arguments mixing trashable entries, dot entries, missing paths, mount points, "
        "named pipes, names that are not UTF-8 or begin with '@', -f / -i with replies; each multi-argument world is also run one argument at a time "
        "on copies and the per-argument outcome (trashed / untouched, named on stderr, trash directory and recorded Path of the new "
        ".trashinfo) compared; plus forced lists where a mount point (passes the gates, cannot be moved) stands before or "
        "after trashable entries that belong in the same trash directory; plus worlds in which every exclusive create of an info "
        "file is refused for good (ENAMETOOLONG / EACCES / ENOSPC / EROFS / EIO): reported, the other arguments handled, within a step budget")


def forced_world(rng):
    """an argument that passes the gates of a trash directory and then cannot be moved (a mount point), next to unrelated
    trashable entries that belong in the same trash directory, in a random order"""
    from ..model import W, put_argv
    from ..sandbox import MODEL_ROOT as R
    w = W()
    uid = rng.choice([0, 1000])
    home = w.dir(R + b"/home/" + rng.choice(HOME_NAMES))
    # (names with characters that mean something to %-formatting, str.format and the shell: the failing argument's own text
    #  must come out in the diagnostic untouched)
    vname = rng.choice([b"/vol1", b"/vol1", b"/100%done", b"/a%sb", b"/%(x)s", b"/{0}", b"/v{}l"])
    vol = w.mount(R + vname)
    nest = w.mount(R + vname + rng.choice([b"/nest", b"/n%dst"]))
    w.file(vol + b"/on-volume", b"v")
    w.file(nest + b"/on-nest", b"n")
    top = rng.choice(["none", "sticky", "sticky-with-uid"])
    if top != "none":
        w.dir(vol + b"/.Trash", 0o1777)
        if top == "sticky-with-uid":
            w.dir(vol + b"/.Trash/%d" % uid, 0o700)
    if rng.random() < 0.5:
        w.dir(R + b"/.Trash", 0o1777)
    where = rng.choice(["root", "vol"])
    bad, base = (vol, home + b"/docs") if where == "root" else (nest, vol + b"/stuff")
    w.dir(base)
    items = [(bad + rng.choice([b"", b"/"]), {"class": "mountpoint"})]
    for nm in rng.sample([b"good", b"a b", b"caf\xc3\xa9", b"d1"], rng.randint(1, 2)):
        if nm == b"d1":
            w.dir(base + b"/" + nm)
            w.file(base + b"/" + nm + b"/in", b"x")
        else:
            w.file(base + b"/" + nm, b"payload " + nm)
        items.append((base + b"/" + nm, {"class": "entry", "kind": "dir" if nm == b"d1" else "file", "spelling": "abs", "entry": base + b"/" + nm}))
    if rng.random() < 0.4:
        items.append((base + b"/missing", {"class": "missing"}))
    rng.shuffle(items)
    opts = {}
    env = {"HOME": home}
    world = w.world(env=env, uid=uid, cwd=home, cmd="put", opts=opts, args=[a for a, _m in items], stdin=None,
                    meta=[m for _a, m in items], randints=[11, 12, 13])
    world["argv"] = put_argv(opts, world["args"])
    return world


def new_infos(res):
    """(trash dir, Path line) of every .trashinfo the run created"""
    import re
    before = {r[0] for r in res["brows"]}
    out = []
    for r in res["arows"]:
        p = bytes.fromhex(r[0])
        m = re.match(rb"^(.*)/info/[^/]+\.trashinfo$", p)
        if m and r[0] not in before and r[1] == "f":
            pm = re.search(rb"(?m)^Path=.*$", bytes.fromhex(r[2]))
            out.append((m.group(1), pm.group(0) if pm else b""))
    return out


def solo_task(task):
    """differential independence check: outcome class of each argument alone vs in the list"""
    world = gen_put_world(task_rng("C16", task["seed"], task["i"])) if not task.get("forced") else forced_world(task_rng("C16f", task["seed"], task["i"]))
    if len(world["args"]) < 2 or world.get("opts", {}).get("mode") == "interactive":
        return {"skip": True}
    if any(m.get("spelling") == "symlink-dotdot" for m in world["meta"]):
        return {"skip": True}
    full = putcheck.evaluate(world, driver(), oracles=())
    ents = [it["entry"] for it in full["facts"]["items"]]
    if len(set(e for e in ents if e)) != len([e for e in ents if e]):
        return {"skip": True}
    from ..model import snap_to_state
    diffs = []
    solo_infos = []
    after = {bytes.fromhex(r[0]): r for r in full["arows"]}
    for k, a in enumerate(world["args"]):
        w1 = dict(world)
        w1["args"] = [a]
        from ..model import put_argv
        w1["argv"] = put_argv(world.get("opts", {}), [a])
        w1["meta"] = [world["meta"][k]]
        solo = putcheck.evaluate(w1, driver(), oracles=())
        solo_infos += new_infos(solo)
        e = ents[k]
        if e is None:
            moved_full = moved_solo = None
        else:
            moved_full = e not in after
            moved_solo = e not in {bytes.fromhex(r[0]) for r in solo["arows"]}
        named_full = (b"'" + a + b"'") in full["stderr"]
        named_solo = (b"'" + a + b"'") in solo["stderr"]
        if moved_full != moved_solo or named_full != named_solo:
            diffs.append({"arg": repr(a), "in_list": [moved_full, named_full], "alone": [moved_solo, named_solo]})
    if sorted(solo_infos) != sorted(new_infos(full)):
        diffs.append({"what": "trash directory / recorded Path of some argument depends on its neighbours",
                      "in_list": repr(sorted(new_infos(full))), "alone": repr(sorted(solo_infos))})
    out = {"skip": False, "diffs": diffs, "summary": world_summary(world), "n": len(world["args"])}
    if diffs:
        out["world"] = jsonable(world)
    return out


def run(tier, seed):
    ck = Check("C16", tier, seed)
    info = audit("C16")
    n = 300 if tier == "quick" else 5000
    results = run_tasks(eval_task, [{"pid": "C16", "seed": seed, "i": i, "cfg": CFG} for i in range(n)])
    absorb(ck, "C16", results, CFG, "Model.Put")
    # rare ingredients made certain: a long name that is no UTF-8 among several arguments; trash directories (and what stands
    # in their way) owned by a uid / gid nobody knows
    for focus in ("long-nonutf8", "unknown-owner"):
        fcfg = dict(CFG, focus=focus)
        absorb(ck, "C16", run_tasks(eval_task, [{"pid": "C16" + focus, "seed": seed, "i": i, "cfg": fcfg} for i in range(40 if tier == "quick" else 400)]), fcfg, "Model.Put")
    solos = run_tasks(solo_task, [{"seed": seed, "i": i} for i in range(120 if tier == "quick" else 1500)] +
                      [{"seed": seed, "i": i, "forced": True} for i in range(40 if tier == "quick" else 400)])
    done = 0
    for r in solos:
        if "machinery" in r:
            from ..lean import MachineryError
            raise MachineryError(r["machinery"])
        if r.get("skip"):
            continue
        done += 1
        ck.case(("solo", json.dumps(r["summary"], sort_keys=True)), tags=["independence:%d-args" % r["n"]])
        if r["diffs"]:
            ck.violation("independence", {"oracle": "independence"}, {"world": r["world"], "differences": r["diffs"]})
    ck.extra["independence_runs"] = done
    # an argument whose trashing fails for good (every attempt to create its info file is refused with the same error) is
    # reported and the arguments after it are handled all the same - within a bounded number of steps
    for r in run_tasks(stuck_task, [{"seed": seed, "i": i} for i in range(24 if tier == "quick" else 300)]):
        if "machinery" in r:
            from ..lean import MachineryError
            raise MachineryError(r["machinery"])
        ck.case(("stuck", r["key"]), tags=["persistent-fault:" + r["errno"], "exit:%s" % r["exit"]], sample=r["key"])
        for m in r["mismatch"]:
            ck.disagreement("Model.Put under a persistent fault vs trashcli.put (%s)" % m["what"], {"world": r.get("world"), "plan": r.get("plan"), "difference": m})
        for b in r["bad"]:
            ck.violation(b["verdict"], {"oracle": b["oracle"], "persistent_fault": r["errno"]}, {"world": r.get("world"), "plan": r.get("plan"), "verdict": b["verdict"]})
    return ck.finish(info, LEVEL_NOTE, RULE)


def stuck_task(task):
    from .. import putcheck
    from ..runner import driver, jsonable
    rng = task_rng("C16stuck", task["seed"], task["i"])
    world = gen_put_world(rng, "mixed")
    errno_ = ["ENAMETOOLONG", "EACCES", "ENOSPC", "EROFS", "ENAMETOOLONG", "EIO"][task["i"] % 6]
    plan = {"faults": [{"op": "createExcl", "persistent": True, "errno": errno_}], "budget": 3000}
    r = putcheck.evaluate(world, driver(), plan=plan, model_faults=plan["faults"], oracles=("C01", "C16"))
    out = {"key": (errno_, len(world["args"]), task["i"]), "errno": errno_, "exit": r["obs_exit"], "mismatch": r["mismatch"], "bad": []}
    if r["obs_exit"] == "budget":
        out["bad"].append({"oracle": "terminates", "verdict": "did-not-terminate-within-budget"})
    for name, v in r["oracle"].items():
        if not v["ok"] and not any(m_.get("spelling") == "symlink-dotdot" for m_ in world.get("meta", [])):
            out["bad"].append({"oracle": name, "verdict": v["verdict"]})
    if out["mismatch"] or out["bad"]:
        out["world"], out["plan"] = jsonable(world), plan
    return out


def replay(path):
    return replay_family("C16", path, CFG)
