"""C16 — trash-put's exit status tells the truth and arguments are handled independently."""
import json

from .. import putcheck
from ..core import Check, audit
from ..putfamily import absorb, eval_task, replay_family, world_summary
from ..runner import driver, jsonable, run_tasks, task_rng
from ..worldgen import gen_put_world

CFG = {"oracles": ("C16", "C01"), "violations": ("C16",), "profile": "mixed", "states": False}
LEVEL_NOTE = ("theorems about putAll hold under every fault oracle; independence of unrelated arguments is stated in full "
              "(C16_independence_full) but not proved: it is validated differentially (every argument alone on a copy "
              "of the world)")
RULE = ("seeded random put worlds with 1-4 arguments mixing trashable entries, dot entries, missing paths, mount points, "
        "names that are not UTF-8, -f / -i with replies; each multi-argument world is also run one argument at a time "
        "on copies and the per-argument outcome (trashed / untouched, named on stderr) compared")


def solo_task(task):
    """differential independence check: outcome class of each argument alone vs in the list"""
    world = gen_put_world(task_rng("C16", task["seed"], task["i"]))
    if len(world["args"]) < 2 or world.get("opts", {}).get("mode") == "interactive":
        return {"skip": True}
    if any(m.get("spelling") == "symlink-dotdot" for m in world["meta"]):
        return {"skip": True}
    full = putcheck.evaluate(world, driver(), oracles=())
    ents = [it["entry"] for it in full["facts"]["items"]]
    if len(set(e for e in ents if e)) != len([e for e in ents if e]):
        return {"skip": True}
    from ..model import snap_to_state
    diffs = []
    after = {bytes.fromhex(r[0]): r for r in full["arows"]}
    for k, a in enumerate(world["args"]):
        w1 = dict(world)
        w1["args"] = [a]
        from ..model import put_argv
        w1["argv"] = put_argv(world.get("opts", {}), [a])
        w1["meta"] = [world["meta"][k]]
        solo = putcheck.evaluate(w1, driver(), oracles=())
        e = ents[k]
        if e is None:
            moved_full = moved_solo = None
        else:
            moved_full = e not in after
            moved_solo = e not in {bytes.fromhex(r[0]) for r in solo["arows"]}
        named_full = (b"'" + a + b"'") in full["stderr"]
        named_solo = (b"'" + a + b"'") in solo["stderr"]
        if moved_full != moved_solo or named_full != named_solo:
            diffs.append({"arg": repr(a), "in_list": [moved_full, named_full], "alone": [moved_solo, named_solo]})
    out = {"skip": False, "diffs": diffs, "summary": world_summary(world), "n": len(world["args"])}
    if diffs:
        out["world"] = jsonable(world)
    return out


def run(tier, seed):
    ck = Check("C16", tier, seed)
    info = audit("C16")
    n = 300 if tier == "quick" else 5000
    results = run_tasks(eval_task, [{"pid": "C16", "seed": seed, "i": i, "cfg": CFG} for i in range(n)])
    absorb(ck, "C16", results, CFG, "Model.Put")
    solos = run_tasks(solo_task, [{"seed": seed, "i": i} for i in range(120 if tier == "quick" else 1500)])
    done = 0
    for r in solos:
        if "machinery" in r:
            from ..lean import MachineryError
            raise MachineryError(r["machinery"])
        if r.get("skip"):
            continue
        done += 1
        ck.case(("solo", json.dumps(r["summary"], sort_keys=True)), tags=["independence:%d-args" % r["n"]])
        if r["diffs"]:
            ck.violation("independence", {"oracle": "independence"}, {"world": r["world"], "differences": r["diffs"]})
    ck.extra["independence_runs"] = done
    return ck.finish(info, LEVEL_NOTE, RULE)


def replay(path):
    return replay_family("C16", path, CFG)
