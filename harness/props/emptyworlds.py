"""world-level part of C10: which pairs a real trash-empty removes"""
from ..readfamily import add_worlds

CFG = {"cmds": ["empty"], "oracles": ("effects",), "violations": ("effects",), "profile": "mixed", "states": False, "real_clock_every": 6}


def add_world_level(ck, pid, tier, seed):
    add_worlds(ck, pid, seed, CFG, 200 if tier == "quick" else 3000)
    ck.extra["world_level"] = "trash-empty runs (DAYS, TRASH_DATE clock or - 15% - the real clock read in a time zone 8-12 hours from UTC with dates given as ages, dry-run, -i) on populated trash dirs; expectation from ground-truth dates"
