"""C06 — trash-restore never clobbers an existing destination unless --overwrite is given."""
import os

from ..core import Check, audit
from ..readfamily import add_worlds, replay_family


def tweak(world, rng):
    """make sure destinations exist often, of every kind, and that the reply selects them"""
    from ..model import W, cmd_argv
    ents = world["meta"]["entries"]
    if not ents:
        return world
    nodes = {n["p"]: n for n in world["nodes"]}
    if any(e.get("dest") in ("hardlink-of-payload", "link-to-payload") for e in ents):
        # what stands at the destination is the payload itself under another name: refused like anything else without
        # --overwrite (more often than not), replaced with it
        world["opts"]["overwrite"] = rng.random() < 0.35
    has_dup = any(e.get("dup") for e in ents)
    if has_dup:
        # keep the second generation as the only thing in the way: drop pre-existing destinations
        for e in ents:
            for p in [q for q in nodes if q == e["loc"] or q.startswith(e["loc"] + b"/")]:
                del nodes[p]
            e.pop("dest", None)
        world["opts"]["overwrite"] = False
    for e in ([] if has_dup else ents):
        if e["loc"] in nodes or rng.random() < 0.4:
            continue
        kind = rng.choice(["file", "dir", "link-file", "link-dir", "link-dangling", "fifo"])
        parent = os.path.dirname(e["loc"])
        parts = parent.split(b"/")
        okp = True
        for i in range(2, len(parts) + 1):
            q = b"/".join(parts[:i])
            if q in nodes and nodes[q]["k"] != "d":
                okp = False
            elif q not in nodes:
                nodes[q] = {"p": q, "k": "d", "mode": 0o755, "mtime": 1000000300}
        if not okp:
            continue
        if kind == "file":
            nodes[e["loc"]] = {"p": e["loc"], "k": "f", "data": b"existing", "mode": 0o644, "mtime": 1000000301}
        elif kind == "fifo":
            # a special file is a non-directory like any other (the model and the snapshots see an empty regular file)
            nodes[e["loc"]] = {"p": e["loc"], "k": "f", "data": b"", "mode": 0o644, "mtime": 1000000301, "special": "fifo"}
        elif kind == "dir":
            nodes[e["loc"]] = {"p": e["loc"], "k": "d", "mode": 0o755, "mtime": 1000000302}
        elif kind == "link-file":
            nodes[e["loc"]] = {"p": e["loc"], "k": "l", "target": b"/SBX/outside/sentinel"}
        elif kind == "link-dir":
            nodes[e["loc"]] = {"p": e["loc"], "k": "l", "target": b"/SBX/outside"}
        else:
            nodes[e["loc"]] = {"p": e["loc"], "k": "l", "target": b"nowhere"}
        e["dest"] = kind
        if kind in ("file", "link-file", "link-dangling") and rng.random() < 0.3 and not world["opts"].get("overwrite"):
            # the entry's Path is recorded with a trailing slash: the existing non-directory is in the way all the same
            ip = e["tdir"] + b"/info/" + e["name"] + b".trashinfo"
            if ip in nodes and nodes[ip]["k"] == "f" and b"Path=/ignored" not in nodes[ip]["data"]:
                import re as _re
                nodes[ip] = dict(nodes[ip], data=_re.sub(rb"(?m)^(Path=[^\r\n]*)", rb"\1/", nodes[ip]["data"], count=1))
                e["loc"] = e["loc"] + b"/"
                e["rec"] = e["rec"] + b"/"
                e["dest"] = kind + "+slash"
    for e in ([] if has_dup else ents):
        # recorded Paths with '.' and '..' components behind a directory that does not exist (other tools may write
        # them): os.makedirs creates the missing directory and the path then designates a file that may well exist
        if e.get("dest") not in (None, "file", "link-file", "link-dangling") or world["opts"].get("overwrite") or rng.random() > (0.5 if e.get("dest") else 0.15) \
                or not e["loc"].startswith(b"/") or e["loc"].endswith(b"/"):
            continue
        ip = e["tdir"] + b"/info/" + e["name"] + b".trashinfo"
        par, name = os.path.split(e["loc"])
        pp, last = os.path.split(par)
        if ip not in nodes or nodes[ip]["k"] != "f" or not last or pp in (b"", b"/") or pp + b"/gone-zz" in nodes:
            continue
        new = rng.choice([par + b"/gone-zz/../" + name, pp + b"/gone-zz/../" + last + b"/./" + name,
                          par + b"/./" + name, pp + b"/gone-zz/gone-yy/../../" + last + b"/" + name])
        if rng.random() < 0.35 and par + b"/jump-xx" not in nodes and b"/SBX/outside/deep" not in nodes \
                and nodes.get(par, {}).get("k") == "d":
            # through a symbolic link and up again: the kernel ends up next to where the LINK leads (a free place there),
            # the text collapses to the directory the link lives in (where a file of that name exists)
            for q in (b"/SBX/outside", b"/SBX/outside/deep", b"/SBX/outside/deep/inner"):
                if q not in nodes:
                    nodes[q] = {"p": q, "k": "d", "mode": 0o755, "mtime": 1000000320}
            nodes[par + b"/jump-xx"] = {"p": par + b"/jump-xx", "k": "l", "target": b"/SBX/outside/deep/inner"}
            new = par + b"/jump-xx/../" + name
        rec = new if e["rec"] == e["loc"] else (new[len(e["base"].rstrip(b"/")) + 1:] if e.get("base") and new.startswith(e["base"].rstrip(b"/") + b"/") else None)
        if rec is None:
            continue
        import re as _re
        from urllib.parse import quote as _quote
        nodes[ip] = dict(nodes[ip], data=_re.sub(rb"(?m)^Path=[^\r\n]*", lambda m_: b"Path=" + _quote(rec, "/").encode(), nodes[ip]["data"], count=1))
        e["loc"], e["rec"] = new, rec
        e["dest"] = (e.get("dest") or "free") + "+dots"
    if world["opts"].get("overwrite"):
        # --overwrite: what comes back may be a directory, what is in the way a dangling link, a link or a file
        for e in ents:
            if e.get("dest") in ("link-dangling", "link-file", "file", "fifo") and rng.random() < 0.5:
                pay = e["tdir"] + b"/files/" + e["name"]
                for q in [q for q in nodes if q == pay or q.startswith(pay + b"/")]:
                    del nodes[q]
                for n_ in nodes.values():
                    if n_.get("hardlink") == pay:
                        n_.pop("hardlink")          # (no longer the same file as the payload)
                nodes[pay] = {"p": pay, "k": "d", "mode": 0o755, "mtime": 1000000310}
                nodes[pay + b"/inside"] = {"p": pay + b"/inside", "k": "f", "data": b"dir payload", "mode": 0o644, "mtime": 1000000311}
    world["nodes"] = sorted(nodes.values(), key=lambda n: n["p"])
    world["opts"]["path"] = b"/"
    world["opts"].pop("trashDir", None)
    world["stdin"] = rng.choice([b"0", b"1", b"0,1", b"0-1", b"1,0", b"0-2", b"2"]) + b"\n"
    if any(e.get("dup") for e in ents) and rng.random() < 0.7:
        # select everything that is offered: both generations of a twice-trashed location are in the selection
        uid = world["uid"]
        k = 0
        for e in ents:
            t = e["tdir"]
            parent = os.path.dirname(t)
            if os.path.basename(parent) == b".Trash":
                n = nodes.get(parent)
                ok = n is not None and n["k"] == "d" and n.get("mode", 0) & 0o1000
            elif b"real-trash" in t:
                ok = False
            else:
                ok = True
            k += 1 if ok else 0
        if k >= 2:
            world["stdin"] = b"0-%d\n" % (k - 1)
    world["argv"] = cmd_argv(world)
    return world


CFG = {"cmds": ["restore"], "oracles": ("effects", "listing", "exit"), "violations": ("effects", "exit"), "profile": "clean",
       "states": False, "tweak": tweak}
LEVEL_NOTE = ("theorems: without --overwrite an existing destination of any kind (lexists) makes restoreOne fail before any "
              "call, under every oracle; a multi-index selection stops there; the command exits 1; with --overwrite a "
              "non-directory payload replaces an existing regular file, never when there is no payload to take its place; "
              "restore_never_clobbers: under every oracle every rename of a restore without --overwrite is issued in a state "
              "with nothing at its destination - also when the destination only comes into being while the parent directories "
              "are made (string-level os.makedirs on Paths with '.'/'..' components: restore_dot_after_dotdot_refused, "
              "restore_dotdot_through_missing_creates_dir, restore_without_rename_only_makes_dirs); a dangling link on the "
              "way blocks the restore")
RULE = ("seeded trash worlds where destinations pre-exist as regular file / directory / symlink to file / symlink to dir / "
        "dangling symlink for about 60% of the entries; 7 reply shapes (single, multi, ranges) x overwrite on/off x sort "
        "modes; recorded Paths with a trailing slash and with '.'/'..' components behind a directory that does not exist; "
        "directed worlds where what stands at the destination is the payload itself under another name (hard link, link to "
        "it) with and without --overwrite; refusals with stderr on a full disk / broken pipe (still non-zero, still nothing clobbered); "
        "oracle: refused entries and everything after them stay in the trash, the destination is unchanged, exit != 0")


def stderr_fault_task(task):
    """the refusal cannot be SAID (stderr on a full disk, on a pipe nobody reads any more): the destination is still not
    clobbered, the entry stays in the trash, and the exit status is still non-zero - judged on the real run alone"""
    from ..model import cmd_argv, snap_to_state
    from ..runner import jsonable
    from ..sandbox import run_world
    from .c15 import same_inode_world
    i = task["i"]
    world = same_inode_world(task["seed"], i)
    world["opts"]["overwrite"] = False
    world["stdin"] = [b"0\n", b"0-%d\n" % (len(world["meta"]["entries"]) - 1)][i % 2]
    world["argv"] = cmd_argv(world)
    plan = {"stderr_fault": [{"nth": 0, "errno": "ENOSPC"}, {"nth": 0, "errno": "EIO"}, {"nth": 0, "errno": "EPIPE", "pipe": True}][i % 3]}
    o = run_world(world, plan)
    before, after = snap_to_state(o["before"]), snap_to_state(o["after"])
    e = world["meta"]["entries"][0]
    problems = []
    if o.get("exit") in (0, None):
        problems.append("exit status %r although entry 0 was refused" % (o.get("exit"),))
    for q in (e["loc"], e["tdir"] + b"/files/" + e["name"], e["tdir"] + b"/info/" + e["name"] + b".trashinfo"):
        if after.get(q) != before.get(q):
            problems.append("%r changed" % q)
    return {"key": (i % 3, i % 2, i), "bad": [{"verdict": "; ".join(problems), "plan": plan, "stdout": repr(o["stdout"][-300:]),
                                              "exc": o.get("exc"), "world": jsonable(world),
                                              "directed": {"fn": "stderr_fault_task", "task": {"seed": task["seed"], "i": task["i"]}}}] if problems else []}


def run(tier, seed):
    ck = Check("C06", tier, seed)
    info = audit("C06")
    add_worlds(ck, "C06", seed, CFG, 300 if tier == "quick" else 4000)
    # what stands at the destination is the payload itself under another name (hard link, symbolic link to it), selected
    # first: refused like any other existing file without --overwrite, replaced with it
    from ..readfamily import absorb, eval_task
    from ..runner import run_tasks
    from .c15 import same_inode_world
    cfg = dict(CFG, tweak=None)
    absorb(ck, run_tasks(eval_task, [{"pid": "C06", "seed": seed, "i": 0, "cfg": cfg, "world": same_inode_world(seed, i)}
                                     for i in range(8 if tier == "quick" else 40)]), cfg)
    for r in run_tasks(stderr_fault_task, [{"seed": seed, "i": i} for i in range(6 if tier == "quick" else 36)]):
        if "machinery" in r:
            from ..lean import MachineryError
            raise MachineryError(r["machinery"])
        ck.case(("stderr-fault", r["key"]), tags=["stderr-fault"])
        for b in r["bad"]:
            ck.violation("refusal-is-a-failure-even-unsaid", {"oracle": "C06-stderr-fault"}, b)
    return ck.finish(info, LEVEL_NOTE, RULE)


def replay(path):
    import sys
    from ..core import replay_directed
    rc = replay_directed(sys.modules[__name__], "C06", path)
    if rc is not None:
        return rc
    return replay_family("C06", path, CFG)
