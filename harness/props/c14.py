"""C14 — no purge without consent: --dry-run and a negative answer change nothing."""
import itertools

from ..core import Check, audit, import_repo
from ..lean import hx
from ..model import cmd_argv, snap_to_state
from ..readfamily import absorb, eval_task, replay_family, tasks_for
from ..runner import driver, run_tasks, task_rng
from ..sandbox import run_world
from ..worldgen import gen_trash_world


def tweak(world, rng):
    o = world["opts"]
    r = rng.random()
    if r < 0.5:
        o["dryRun"] = True
        if o.get("flags") and o.get("interactive") and world.get("stdin") is None:
            o["flags"] = [b"-f"]
            o["interactive"] = False
    else:
        o["interactive"] = True
        if o.get("flags"):
            o["flags"] = rng.choice([[b"-f", b"-i"], [b"-fi"], [b"-f", b"--interactive"], [b"-i"], [b"-i", b"-f", b"-i"]])
        world["stdin"] = None if rng.random() < 0.15 else rng.choice(
            [b"n", b"N", b"", b"no", b" y", b"x", b"0", b"\ty", b"ny", b"y", b"Y", b"yes", b"Yn",
             # characters that only LOOK like a y (full-width, modifier, circled, accented), and a byte that is no UTF-8
             "\uff59".encode(), "\uff39es".encode(), "\u02b8".encode(), "\u24e8".encode(), "\u24ce".encode(), "\u00fd".encode(),
             "\U0001d432".encode(), b"\xff"]) + b"\n"
    world["argv"] = cmd_argv(world)
    return world


CFG = {"cmds": ["empty"], "oracles": ("effects",), "violations": ("effects",), "profile": "mixed", "states": False, "tweak": tweak}
LEVEL_NOTE = ("theorems: with --dry-run, and in interactive mode with a reply not beginning with y/Y (or end of input), "
              "trash-empty issues no file-system call, for every world, DAYS and oracle; the reply test is 'first character "
              "y or Y'. C14Loop: dry_run_loop_prints_selected (every oracle: no call, unchanged, the lines are payload and info path of "
              "each selected name in order), real_loop_removes_selected, dry_run_prints_exactly_what_real_removes(_partial), "
              "dry_run_command_prints_announced and dry_run_command_partial (whole runEmpty over several directories incl. the "
              "orphan pass), guard_refuses_completely, reply_first_byte_decides; counterexamples (real behaviour): "
              "symlinked_info_breaks_dry_run (the recorded finding), payloadless_entry_is_announced. 'dry-run prints exactly what "
              "the real run removes' is also checked differentially on copies of each world")
RULE = ("seeded trash worlds (a quarter with a stale directorysizes cache in the trash directories) x {--dry-run, -i with 21 replies incl. EOF and look-alikes of y} x DAYS x --trash-dir x -v; oracle: every slot kept "
        "and everything outside unchanged; exhaustive function-level check of parse_reply over all strings of length <= 2 "
        "of printable ASCII; differential: printed paths of a dry run vs paths removed by the real run on a copy")


def overflow_world(rng):
    """two trash directories named on the command line: the first holds only payloads without info (and an undated entry),
    the second a dated entry; DAYS is so large that the first dated entry met makes the command die - after the first
    directory has been dealt with, in the real run and in the announcements of the dry run alike"""
    from ..model import W
    from ..sandbox import MODEL_ROOT as R
    w = W()
    home = w.dir(R + b"/home/u")
    a, b_ = R + b"/data/A", R + b"/data/B"
    for t in (a, b_):
        w.dir(t, 0o700)
        w.dir(t + b"/files", 0o700)
        w.dir(t + b"/info", 0o700)
    w.file(a + b"/files/orphan", b"no info")
    w.file(a + b"/files/orphan-dir/inner", b"no info either")
    w.file(a + b"/info/undated.trashinfo", b"[Trash Info]\nPath=" + R + b"/w/undated\n", 0o600)
    w.file(a + b"/files/undated", b"kept by DAYS")
    w.file(b_ + b"/info/dated.trashinfo", b"[Trash Info]\nPath=" + R + b"/w/dated\nDeletionDate=2020-01-01T00:00:00\n", 0o600)
    w.file(b_ + b"/files/dated", b"x")
    opts = {"userDirs": [a, b_], "days": rng.choice([10 ** 9, 10 ** 9, 999999999, 800000]), "now": [2024, 3, 2, 12, 0, 0]}
    world = w.world(env={"HOME": home, "TRASH_DATE": b"2024-03-02T12:00:00"}, uid=1000, cwd=R, cmd="empty", opts=opts, args=[], stdin=None,
                    meta={"entries": [], "tdirs": [(a, None), (b_, None)], "profile": "overflow", "payload_kinds": []})
    return world


def dry_vs_real(task):
    rng = task_rng("C14d", task["seed"], task["i"])
    world = gen_trash_world(rng, "empty", "mixed") if task["i"] % 20 != 7 else overflow_world(rng)
    world["opts"].pop("interactive", None)
    world["stdin"] = None
    world["opts"]["dryRun"] = True
    link_paths = set()
    ents = [e for e in world["meta"]["entries"] if not e.get("via_link")]
    if ents and rng.random() < 0.25:
        # an info file that is a symbolic link to the info file of a sibling entry
        e = rng.choice(ents)
        nodes = {n["p"]: n for n in world["nodes"]}
        nm = rng.choice([b"zz-link", b"0-link", e["name"] + b"-link"])
        ip, pp = e["tdir"] + b"/info/" + nm + b".trashinfo", e["tdir"] + b"/files/" + nm
        if ip not in nodes and pp not in nodes and e["tdir"] + b"/info/" + e["name"] + b".trashinfo" in nodes:
            nodes[ip] = {"p": ip, "k": "l", "target": e["name"] + b".trashinfo"}
            nodes[pp] = {"p": pp, "k": "f", "data": b"payload of the linked info", "mode": 0o644, "mtime": 1000000400}
            world["nodes"] = sorted(nodes.values(), key=lambda n: n["p"])
            link_paths = {ip, pp}
    tds = [t for t, _v in world["meta"].get("tdirs", []) if not any(e.get("via_link") for e in world["meta"]["entries"] if e["tdir"] == t)]
    if tds and not link_paths and rng.random() < 0.3:
        # two entries whose payloads are two names of ONE file (a file and its hard link, trashed one after the other):
        # two entries all the same - both are removed, both are announced
        nodes = {n["p"]: n for n in world["nodes"]}
        t = rng.choice(tds)
        if nodes.get(t + b"/files", {}).get("k") == "d" and nodes.get(t + b"/info", {}).get("k") == "d" and \
                not any(q in nodes for q in (t + b"/files/hl-a", t + b"/files/hl-b", t + b"/info/hl-a.trashinfo", t + b"/info/hl-b.trashinfo")):
            for nm in (b"hl-a", b"hl-b"):
                nodes[t + b"/info/" + nm + b".trashinfo"] = {"p": t + b"/info/" + nm + b".trashinfo", "k": "f", "mode": 0o600, "mtime": 1000000500,
                                                           "data": b"[Trash Info]\nPath=/SBX/w/" + nm + b"\nDeletionDate=2000-01-01T00:00:00\n"}
                nodes[t + b"/files/" + nm] = {"p": t + b"/files/" + nm, "k": "f", "mode": 0o644, "mtime": 1000000500, "data": b"one file, two names"}
            nodes[t + b"/files/hl-b"]["hardlink"] = t + b"/files/hl-a"
            world["nodes"] = sorted(nodes.values(), key=lambda n: n["p"])
    world["argv"] = cmd_argv(world)
    dry = run_world(world, {})
    w2 = dict(world)
    w2["opts"] = dict(world["opts"], dryRun=False, verbose=0)
    w2["argv"] = cmd_argv(w2)
    real = run_world(w2, {})
    if (dry.get("exc") or None) != (real.get("exc") or None):
        return {"skip": True}
    # (when both runs die the same way - DAYS out of range at the first dated entry of a later directory, say - what the
    #  real run had removed until then is what the dry run must have announced until then)
    printed = [l[len(b"would remove "):] for l in dry["stdout"].split(b"\nwould remove ")]
    text = dry["stdout"]
    printed = []
    if text.startswith(b"would remove "):
        printed = text[len(b"would remove "):].rstrip(b"\n").split(b"\nwould remove ")
    before = snap_to_state(real["before"])
    after = snap_to_state(real["after"])
    removed = {p for p in before if p not in after}
    roots = {p for p in removed if not any(q != p and p.startswith(q + b"/") and q in removed for q in removed)}
    cwd = world["cwd"]
    absol = lambda p: p if p.startswith(b"/") else cwd.rstrip(b"/") + b"/" + p
    # (paths are printed as the trash directory was spelled: resolve them as the kernel would)
    from ..model import phys_resolve
    printed_existing = {phys_resolve(before, absol(p)) for p in printed if phys_resolve(before, absol(p)) in before}
    ok = printed_existing == roots and snap_to_state(dry["after"]) == snap_to_state(dry["before"])
    diff_ = (printed_existing - roots) | (roots - printed_existing)
    return {"skip": False, "ok": ok, "printed": len(printed), "removed": len(roots), "symlinked_info": bool(link_paths),
            "only_link_entries": bool(link_paths) and bool(diff_) and diff_ <= link_paths,
            "detail": None if ok else {"printed_not_removed": sorted(map(repr, printed_existing - roots))[:5],
                                       "removed_not_printed": sorted(map(repr, roots - printed_existing))[:5]}}


def run(tier, seed):
    ck = Check("C14", tier, seed)
    info = audit("C14")
    import_repo()
    from trashcli.empty.parse_reply import parse_reply
    drv = driver()
    chars = [chr(c) for c in range(32, 127)]
    replies = [""] + chars + [a + c for a, c in itertools.product(chars, repeat=2)]
    res = drv.ask_many([{"op": "emptyReply", "s": hx(r.encode())} for r in replies])
    for r, m in zip(replies, res):
        e = bool(parse_reply(r))
        ck.case(("reply", r), tags=["reply:" + str(e)])
        if m["r"] != e:
            ck.disagreement("Model.Index.emptyReplyYes vs parse_reply", {"reply": r, "impl": e, "model": m["r"]})
        if e != (r[:1] in ("y", "Y")):
            ck.violation("only-y-consents", {"oracle": "reply"}, {"reply": r, "impl": e})
    results = run_tasks(eval_task, tasks_for("C14", seed, CFG, 200 if tier == "quick" else 3000))
    absorb(ck, results, CFG)
    dd = run_tasks(dry_vs_real, [{"seed": seed, "i": i} for i in range(80 if tier == "quick" else 1500)])
    n = 0
    for r in dd:
        if "machinery" in r:
            from ..lean import MachineryError
            raise MachineryError(r["machinery"])
        if r.get("skip"):
            continue
        n += 1
        ck.case(("dry-vs-real", n, r["printed"], r["removed"]), nontrivial=r["printed"] > 0, tags=["dry-vs-real"])
        if not r["ok"]:
            ck.violation("dry-run-prints-what-real-removes", {"oracle": "dry-vs-real", "symlinked_info": r.get("symlinked_info", False),
                                                             "only_link_entries": r.get("only_link_entries", False)}, r)
    ck.extra["dry_vs_real_runs"] = n
    ck.exhaustive = False
    ck.extra["exhaustive_subdomains"] = ["parse_reply over all strings of length <= 2 of printable ASCII (9121 replies)"]
    return ck.finish(info, LEVEL_NOTE, RULE)


def replay(path):
    return replay_family("C14", path, CFG)
