"""C10 — trash-empty DAYS purges exactly the entries trashed more than DAYS days ago.

Function level: older_than / parse_deletion_date / Clock against Model/Date.lean on an exhaustive
boundary grid.  World level (emptyworlds, when available): which pairs a real trash-empty removes."""
import datetime
import itertools
import json

from ..core import Check, audit, import_repo
from ..lean import Driver, hx

LEVEL_NOTE = ("modelled, not verified: datetime/timedelta arithmetic and strptime of CPython 3.12.1 as encoded in "
              "Model/Date.lean (proved equal to an independent day-by-day calendar in Props/C10.lean). C10Cmd: the whole command over any "
              "list of trash directories: an entry is gone iff its info has a DeletionDate older than DAYS, every other entry (undated, "
              "unreadable, young, on the boundary, in the future) is intact, nothing outside the trash directories changes; without DAYS "
              "everything goes; an overflowing DAYS stops the command at the first dated entry; payloads without info are swept with DAYS too (real behaviour)")
RULE = ("exhaustive boundary grid: DAYS in {0,1,2,7,30,365,366,3650,10^6,10^9-1,10^9} x 26 'now' values x deltas "
        "{0, +-1 s, +-1 d, +-DAYS d +-1 s, year 1, year 9999} x microseconds {0, 1, 999999}; then seeded random triples; "
        "distinct by (days, now, us, date); every case reaches older_than")
DAYS = [0, 1, 2, 7, 30, 365, 366, 3650, 10 ** 6, 10 ** 9 - 1, 10 ** 9]
NOWS = [datetime.datetime(y, m, d, H, M, S) for (y, m, d) in
        [(1, 1, 1), (1, 1, 2), (2, 1, 1), (1000, 3, 1), (1900, 3, 1), (2000, 3, 1), (2023, 3, 1), (2024, 2, 29), (2024, 3, 1),
         (2024, 12, 31), (2025, 1, 1), (9999, 12, 31), (2100, 3, 1)]
        for (H, M, S) in [(0, 0, 0), (23, 59, 59)]]


def dl(d):
    return [d.year, d.month, d.day, d.hour, d.minute, d.second]


def micros(d):
    return ((d.toordinal() * 86400 + d.hour * 3600 + d.minute * 60 + d.second) * 10 ** 6) + d.microsecond


def run(tier, seed):
    ck = Check("C10", tier, seed)
    info = audit("C10")
    import_repo()
    from trashcli.empty.older_than import older_than
    drv = Driver()
    try:
        cases = []
        for days, now in itertools.product(DAYS, NOWS):
            cands = set()
            for delta in (0, 1, -1, 86400, -86400):
                for base in (now, ):
                    for extra in (0, -days * 86400, -days * 86400 - 1, -days * 86400 + 1):
                        try:
                            cands.add(base + datetime.timedelta(seconds=delta + extra))
                        except OverflowError:
                            pass
            cands |= {datetime.datetime(1, 1, 1), datetime.datetime(9999, 12, 31, 23, 59, 59)}
            for d in cands:
                d = d.replace(microsecond=0)
                for us in (0, 1, 999999):
                    cases.append((days, now.replace(microsecond=us), d))
        rng = ck.rng
        for _ in range(3000 if tier == "quick" else 100000):
            now = datetime.datetime(rng.randint(1, 9999), rng.randint(1, 12), rng.randint(1, 28), rng.randint(0, 23),
                                    rng.randint(0, 59), rng.randint(0, 59), rng.choice([0, 0, 1, 500000]))
            days = rng.choice([0, 1, 7, 30, rng.randint(0, 4000), rng.randint(0, 4 * 10 ** 6)])
            try:
                d = now - datetime.timedelta(days=days, seconds=rng.choice([0, 0, 1, -1, 86400, -86400, rng.randint(-10 ** 6, 10 ** 6)]))
            except OverflowError:
                d = datetime.datetime(1, 1, 1)
            cases.append((days, now, d.replace(microsecond=0)))
        reqs = [{"op": "olderThan", "days": days, "now": dl(now), "us": now.microsecond, "date": dl(d)} for (days, now, d) in cases]
        res = drv.ask_many(reqs)
        for (days, now, d), m in zip(cases, res):
            try:
                e = "yes" if older_than(days, now, d) else "no"
            except OverflowError:
                e = "overflow"
            ck.case((days, now, d), tags=["older:" + e], sample={"days": days, "now": str(now), "date": str(d), "impl": e})
            if m["r"] != e:
                ck.disagreement("Model.Date.olderThan vs older_than", {"days": days, "now": str(now), "date": str(d), "impl": e, "model": m["r"]})
            # oracle from the property text, independent integer arithmetic on ordinals
            limit = micros(now) - days * 86400 * 10 ** 6
            want = "yes" if (limit >= micros(datetime.datetime(1, 1, 1)) and micros(d) < limit) else "no"
            if e == "overflow":
                if limit >= micros(datetime.datetime(1, 1, 1)) and days <= 999999999:
                    ck.violation("spurious-overflow", {"kind": "older"}, {"days": days, "now": str(now), "date": str(d)})
            elif e != want:
                ck.violation("strictly-earlier-than-now-minus-days", {"kind": "older"},
                             {"days": days, "now": str(now), "date": str(d), "impl": e, "want": want})
        # the date the commands read: first line (split at '\n' only) starting with 'DeletionDate=', strictly parsed
        from trashcli.parse_trashinfo.parse_deletion_date import parse_deletion_date
        import re as _re
        seps = ["\x0b", "\x0c", "\x1c", "\x1d", "\x1e", "\x85", "\u2028", "\u2029", " ", "\t", ""]
        texts = []
        for sp in seps:
            texts.append("[Trash Info]\nPath=/a\nDeletionDate=2000-01-01T00:00:00" + sp + "\n")
            texts.append("[Trash Info]\nPath=/a\nX-Note=a" + sp + "DeletionDate=2000-01-01T00:00:00\nDeletionDate=2030-01-01T00:00:00\n")
            texts.append("[Trash Info]\nPath=/a" + sp + "DeletionDate=2000-01-01T00:00:00\n")
        rx = _re.compile(r"^(\d{4})-(\d{1,2})-(\d{1,2})[Tt](\d{1,2}):(\d{1,2}):(\d{1,2})$")
        for t in texts:
            got = parse_deletion_date(t)
            first = next((l for l in t.split("\n") if l.startswith("DeletionDate=")), None)
            want = None
            if first is not None:
                mm = rx.match(first[len("DeletionDate="):])
                if mm:
                    try:
                        want = datetime.datetime(*map(int, mm.groups()))
                    except ValueError:
                        want = None
            ck.case(("date-line", t), tags=["date-line:" + ("dated" if got else "undated")])
            m = drv.ask({"op": "parseDate", "s": hx(t.encode("utf-8"))})
            if (m["r"] == "date") != (got is not None) or (got is not None and m["date"] != dl(got)):
                if not any(ord(c) > 127 for c in (first or "")):
                    ck.disagreement("Model.Date.parseDate vs parse_deletion_date", {"text": t, "impl": str(got), "model": m})
            if got != want:
                ck.violation("first-DeletionDate-line-strictly-parsed", {"kind": "date-line"}, {"text": t, "impl": str(got), "want": str(want)})
        ck.traces = len(res)
        ck.exhaustive = False
        ck.extra["exhaustive_subdomains"] = ["boundary grid of %d DAYS x %d now values x deltas x microseconds" % (len(DAYS), len(NOWS))]
        from . import emptyworlds
        emptyworlds.add_world_level(ck, "C10", tier, seed)
    except ImportError:
        ck.notes.append("world-level part not built yet")
    finally:
        drv.close()
    return ck.finish(info, LEVEL_NOTE, RULE)


def replay(path):
    print(open(path).read()[:3000])
    return 1
