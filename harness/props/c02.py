"""C02 — put then restore returns the exact entry to its exact original path."""
import os
import re

from .. import putcheck, readcheck
from ..core import Check, audit
from ..lean import MachineryError
from ..model import W, cmd_argv, put_argv, world_from_state
from ..runner import driver, jsonable, run_tasks, task_rng
from ..sandbox import MODEL_ROOT as R
from ..worldgen import DEEP_AREA, HOME_NAMES, make_entry, populate_trash, uid_dir

LEVEL_NOTE = ("theorems: the restore core applied after the put core is the identity on the entry (every node, bytes, link "
              "targets, modes, mtimes) and on every other path except the mtimes of the directories whose entry lists "
              "changed; the recorded location is read back exactly (any bytes) and is in scope of its directory and of "
              "every ancestor; the payload path restore derives is the one put used. String-level composition across the "
              "two commands is validated by the pipelines")
RULE = ("pipelines put -> [noise: another put, a list] -> restore: names from byte classes (space, newline, CR, %, +, #, ?, "
        "=, [, leading -, .trashinfo suffix, multi-byte UTF-8, 255-byte names, invalid UTF-8; thorough: every single byte "
        "1-255 except '/' alone and inside a name) x kinds (file, empty, tree, 4 symlink kinds) x layouts (home, .Trash/uid, "
        ".Trash-uid, --trash-dir; directories 7 levels deep in 240-byte non-ASCII names: 5 KB once escaped) x sort (date, path, none) x restore from the original directory, an ancestor, '/', or by "
        "path argument; oracle: canonical snapshot of the original subtree after restore = before put; the trash slot is gone")
CLASS_NAMES = [b"a b", b"new\nline", b"cr\rx", b"per%cent", b"plus+", b"#hash", b"q?", b"eq=", b"[br]", b"-dash", b"x.trashinfo",
               b"caf\xc3\xa9", b"\xe2\x82\xac", b"n" * 255, b"\xff\xfe", b"\xc3", b"tab\t", b"'quote", b"back\\slash", b"*", b"~",
               b"...", b".hidden", b" lead", b"trail ", b"%41", b"%", b"a%2Fb"]


def pipeline(task):
    rng = task_rng("C02", task["seed"], task["i"])
    drv = driver()
    name = task.get("name") or rng.choice(CLASS_NAMES)
    w = W()
    uid = rng.choice([0, 1000])
    home = w.dir(R + b"/home/" + rng.choice([n for n in HOME_NAMES if n != b"info"]))
    layout = rng.choice(["home", "top", "alt", "custom", "fallback"])
    env = {"HOME": home}
    opts = {}
    if layout == "home":
        d = home + rng.choice([b"/docs", b"/docs/deep/er", b"/docs", DEEP_AREA])
    else:
        w.mount(R + b"/vol1")
        d = R + b"/vol1" + rng.choice([b"/stuff", b"/a/b/c", b"/stuff", DEEP_AREA])
        if layout == "top":
            w.dir(R + b"/vol1/.Trash", 0o1777)
        if layout == "fallback":
            # the volume's own trash directories are unusable and the home fallback is on: the entry is COPIED to the home
            # trash of another volume and copied back by the restore - attributes and all
            w.file(R + b"/vol1/.Trash-%d" % uid, b"in the way")
            if rng.random() < 0.5:
                w.file(R + b"/vol1/.Trash", b"not a directory either")
            opts["homeFallback"] = True
            env["TRASH_ENABLE_HOME_FALLBACK"] = b"1"
        if layout == "custom":
            # the same directory under three spellings: plain, through a symbolic link that crosses the mount point, and
            # through a link followed by '..' (the kernel follows the link before it goes up)
            sp = rng.choice(["plain", "plain", "via-link", "link-dotdot"])
            if sp == "via-link":
                w.link(R + b"/to-vol1", rng.choice([R + b"/vol1", b"vol1"]))
                opts["trashDir"] = R + b"/to-vol1/ct"
            elif sp == "link-dotdot":
                w.dir(R + b"/vol1/deep/inner")
                w.link(R + b"/vol1/jump", R + b"/vol1/deep/inner")
                opts["trashDir"] = R + b"/vol1/jump/../../ct"
            else:
                opts["trashDir"] = R + b"/vol1/ct"
    w.dir(d)
    kind = make_entry(rng, w, d, name, rng.choice(["file", "empty", "tree", "link-dangling"]) if len(name) > 200 else None)
    if layout == "fallback":
        for n_ in w.nodes.values():          # (a named pipe is refused by shutil's copy: not this model's business)
            n_.pop("special", None)
    other = make_entry(rng, w, d, b"other-entry", "file")
    entry = d + b"/" + name
    cwd_put = rng.choice([d, home, R])
    arg = entry if rng.random() < 0.5 or cwd_put != d else name
    if arg.startswith(b"-"):
        arg = b"./" + arg
    world = w.world(env=env, uid=uid, cwd=cwd_put, cmd="put", args=[arg], opts=opts, argv=put_argv(opts, [arg]), stdin=None,
                    randints=[1, 2, 3], meta=[{"class": "entry", "kind": kind, "spelling": "x", "entry": entry}])
    problems, mismatches = [], []
    r1 = putcheck.evaluate(world, drv, oracles=("C01",))
    mismatches += [("put", m) for m in r1["mismatch"]]
    before = r1["before_state"]
    orig = {p: v for p, v in before.items() if p == entry or p.startswith(entry + b"/")}
    state = r1["after_state"]
    if entry in state:
        return {"skip": "not trashed", "name": repr(name), "mismatch": mismatches, "tags": ["kind:" + kind, "layout:" + layout],
                "task": jsonable(dict(task))}
    # noise: trash something else, list
    if rng.random() < 0.5:
        w2 = world_from_state(world, state, args=[d + b"/other-entry"], argv=put_argv(opts, [d + b"/other-entry"]),
                              meta=[{"class": "entry", "kind": "file", "spelling": "x", "entry": d + b"/other-entry"}])
        r = putcheck.evaluate(w2, drv, oracles=())
        mismatches += [("noise-put", m) for m in r["mismatch"]]
        state = r["after_state"]
    # restore: first look at the listing, then pick our index
    sort = rng.choice(["date", "path", "none"])
    how = rng.choice(["cwd-dir", "cwd-ancestor", "cwd-root", "path-arg"])
    ropts = {"sort": sort}
    if layout == "custom":
        ropts["trashDir"] = opts["trashDir"]
    rcwd = d
    if how == "cwd-ancestor":
        rcwd = os.path.dirname(d)
    elif how == "cwd-root":
        rcwd = R
    elif how == "path-arg":
        rcwd = home
        ropts["path"] = rng.choice([entry, d, os.path.dirname(d)])
    # the directory restore runs from must exist
    base_w = dict(world, cmd="restore", opts=ropts, args=[], meta={"entries": [], "tdirs": [], "profile": "c02", "payload_kinds": []})
    for dd in (rcwd, ):
        if dd not in state:
            state = dict(state)
            parts = dd.split(b"/")
            for i in range(2, len(parts) + 1):
                q = b"/".join(parts[:i])
                if q not in state:
                    state[q] = ("d", b"", 0o755, 0, b"")
    wl = world_from_state(base_w, state, cwd=rcwd, stdin=b"\n")
    wl["argv"] = cmd_argv(wl)
    rl = readcheck.evaluate(wl, drv, oracles=())
    mismatches += [("restore-listing", m) for m in rl["mismatch"]]
    text = re.sub(rb"What file to restore \[0\.\.\d+\]: ", b"", rl["stdout"])
    idx = None
    for m in re.finditer(rb"(?m)^ *(\d+) \d{4}-\d\d-\d\d \d\d:\d\d:\d\d " + re.escape(entry) + rb"$", text):
        idx = int(m.group(1))
    if idx is None:
        problems.append("entry not offered by trash-restore (sort=%s, from %r, opts %r)" % (sort, rcwd, ropts))
    else:
        wr = world_from_state(base_w, state, cwd=rcwd, stdin=b"%d\n" % idx)
        wr["argv"] = cmd_argv(wr)
        rr = readcheck.evaluate(wr, drv, oracles=())
        mismatches += [("restore", m) for m in rr["mismatch"]]
        final = rr["after_state"]
        back = {p: v for p, v in final.items() if p == entry or p.startswith(entry + b"/")}
        if back != orig:
            problems.append("restored entry differs from the original: %r" % (sorted(set(back.items()) ^ set(orig.items()))[:3],))
        if rr["obs_exit"] != 0:
            problems.append("restore exit %r" % rr["obs_exit"])
        # the trash slot is gone, nothing else in the trash changed
        tro = {p: v for p, v in state.items() if (b"/info/" in p or b"/files/" in p)}
        trn = {p: v for p, v in final.items() if (b"/info/" in p or b"/files/" in p)}
        gone = set(tro) - set(trn)
        same = lambda a, c: a is not None and c is not None and a[:3] == c[:3] and a[4] == c[4] and (a[3] == c[3] or a[3] == 0 or c[3] == 0)
        if not gone or any(not same(trn.get(p), v) for p, v in tro.items() if p not in gone):
            problems.append("trash content after restore is not 'before minus the restored entry': gone=%r changed=%r" % (
                sorted(gone)[:4], [p for p, v in tro.items() if p not in gone and not same(trn.get(p), v)][:4]))
        if len({p for p in gone if b"/info/" in p}) != 1:
            problems.append("not exactly one info file removed: %r" % sorted(gone)[:4])
    out = {"skip": None, "name": repr(name), "problems": problems, "mismatch": mismatches, "task": jsonable(dict(task)),
           "tags": ["kind:" + kind, "layout:" + layout, "sort:" + sort, "from:" + how,
                    "name-class:" + ("utf8" if _is_utf8(name) else "non-utf8")]}
    if problems or mismatches:
        out["world"] = jsonable(world)
        out["restore_opts"] = jsonable(ropts)
        out["restore_cwd"] = repr(rcwd)
    return out


def nested_pipeline(task):
    """two entries of which one lies inside the other (a file, then the directory it lived in), restored by ONE reply that
    names the directory first: the reply's order is the order of the restores, and the tree comes back whole"""
    rng = task_rng("C02n", task["seed"], task["i"])
    drv = driver()
    w = W()
    uid = 1000
    home = w.dir(R + b"/home/u")
    d = home + rng.choice([b"/proj", b"/a b"])
    sub = d + b"/" + rng.choice([b"sub", b"caf\xc3\xa9"])
    w.dir(sub, rng.choice([0o750, 0o700, 0o755]))
    w.file(sub + b"/f", b"inner file", 0o640)
    w.file(sub + b"/other", b"stays in the directory")
    twins = task["i"] % 2 == 1
    env = {"HOME": home}
    base = w.world(env=env, uid=uid, cwd=home, cmd="put", args=[], opts={}, argv=[], stdin=None, randints=[1, 2, 3], meta=[])
    mism, problems = [], []
    state = None
    orig = None
    first, second = (sub + b"/f", sub) if not twins else (sub + b"/f", sub + b"/f")
    for k, arg in enumerate((first, second)):
        wd = dict(base, args=[arg], argv=put_argv({}, [arg]), meta=[{"class": "entry", "kind": "x", "spelling": "abs", "entry": arg}])
        if state is not None:
            if twins:
                state = dict(state)
                state[arg] = ("f", b"second generation", 0o600, 1000000900, b"")
                for p_, v_ in list(state.items()):          # the first generation was trashed long ago
                    if p_.endswith(b".trashinfo") and v_[0] == "f":
                        state[p_] = (v_[0], re.sub(rb"DeletionDate=[^\n]*", b"DeletionDate=2020-01-01T00:00:00", v_[1]), v_[2], v_[3], v_[4])
            wd = world_from_state(wd, state)
        r = putcheck.evaluate(wd, drv, oracles=("C01",))
        mism += [("put %d" % k, m) for m in r["mismatch"]]
        if orig is None:
            orig = {p: v for p, v in r["before_state"].items() if p == sub or p.startswith(sub + b"/")}
        state = r["after_state"]
    if twins:
        orig = dict(orig)
        orig[sub + b"/f"] = ("f", b"second generation", 0o600, 1000000900, b"")        # the newer one, chosen first, wins the place
    ropts = {"path": b"/", "sort": rng.choice(["path", "date"])}
    base_r = dict(base, cmd="restore", opts=ropts, args=[], meta={"entries": [], "tdirs": [], "profile": "c02n", "payload_kinds": []})
    wl = world_from_state(base_r, state, cwd=R, stdin=b"\n")
    wl["argv"] = cmd_argv(wl)
    rl = readcheck.evaluate(wl, drv, oracles=())
    text = re.sub(rb"What file to restore \[0\.\.\d+\]: ", b"", rl["stdout"])
    idx = {}
    for m in re.finditer(rb"(?m)^ *(\d+) (\d{4}-\d\d-\d\d \d\d:\d\d:\d\d) (/.*)$", text):
        idx.setdefault(m.group(3), []).append((m.group(2), int(m.group(1))))
    if not twins and (sub not in idx or sub + b"/f" not in idx):
        problems.append("entries not offered: %r" % text[:200])
    elif twins and len(idx.get(sub + b"/f", [])) != 2:
        problems.append("two generations not offered: %r" % text[:200])
    else:
        if twins:
            gens = sorted(idx[sub + b"/f"])                       # by date: older, newer
            reply = b"%d,%d" % (gens[1][1], gens[0][1])           # the newer first: it gets the place, the older is refused
        else:
            reply = b"%d,%d" % (idx[sub][0][1], idx[sub + b"/f"][0][1])    # the directory first, then the file into it
        wr = world_from_state(base_r, state, cwd=R, stdin=reply + b"\n")
        wr["argv"] = cmd_argv(wr)
        rr = readcheck.evaluate(wr, drv, oracles=())
        mism += [("restore", m) for m in rr["mismatch"]]
        final = rr["after_state"]
        back = {p: v for p, v in final.items() if p == sub or p.startswith(sub + b"/")}
        strip = lambda st: {p: (v[0], v[1], v[2], 0 if v[0] == "d" else v[3], v[4]) for p, v in st.items()}
        if strip(back) != strip(orig):
            problems.append("reply %r (in that order): the tree did not come back as it was: %r" % (
                reply, sorted(set(strip(back).items()) ^ set(strip(orig).items()))[:3]))
        if not twins and rr["obs_exit"] != 0:
            problems.append("restore exit %r" % rr["obs_exit"])
    out = {"skip": None, "name": "nested" if not twins else "twins", "problems": problems, "mismatch": mism, "task": jsonable(dict(task)),
           "tags": ["kind:" + ("nested" if not twins else "twins"), "layout:home", "sort:" + ropts["sort"], "from:reply-order"]}
    if problems or mism:
        out["world"] = jsonable(base)
    return out


def _is_utf8(b):
    try:
        b.decode("utf-8")
        return True
    except UnicodeDecodeError:
        return False


def run(tier, seed):
    ck = Check("C02", tier, seed)
    info = audit("C02")
    tasks = [{"seed": seed, "i": i} for i in range(160 if tier == "quick" else 2500)]
    byte_names = [bytes([c]) for c in range(1, 256) if c != 47 and bytes([c]) not in (b".",)] + \
                 [b"a" + bytes([c]) + b"z" for c in range(1, 256) if c != 47]
    pick = byte_names if tier == "thorough" else [byte_names[i] for i in range(seed % 7, len(byte_names), 7)]
    tasks += [{"seed": seed, "i": 100000 + k, "name": n} for k, n in enumerate(pick)]
    # names that are valid UTF-8 but not in normalisation form C (base letter + combining mark, singletons, conjoining jamo):
    # other bytes than their composed twins, hence other names
    tasks += [{"seed": seed, "i": 200000 + k, "name": n.encode()} for k, n in enumerate(
        ["cafe\u0301 menu.txt", "\u212bngstro\u0308m", "\u1112\u1161\u11ab.dat", "\u2126", "e\u0301", "\ufb01le"])]
    nested = run_tasks(nested_pipeline, [{"seed": seed, "i": i, "nested": True} for i in range(12 if tier == "quick" else 150)])
    for r in list(run_tasks(pipeline, tasks)) + list(nested):
        if "machinery" in r:
            raise MachineryError(r["machinery"])
        ck.case((r["name"], tuple(r["tags"])), nontrivial=not r.get("skip"), tags=r["tags"] + (["skipped:" + r["skip"]] if r.get("skip") else []),
                sample={"name": r["name"], "tags": r["tags"]})
        ck.traces += 1
        for step, m in r["mismatch"]:
            ck.disagreement("Model (%s) vs trashcli (%s)" % (step, m["what"]), {"task": r.get("task"), "world": r.get("world"), "difference": m})
        for p in r.get("problems", []):
            ck.violation(p.split(":")[0][:60], {"oracle": "pipeline"}, {"task": r.get("task"), "world": r.get("world"), "problem": p, "name": r["name"],
                                                                         "restore_opts": r.get("restore_opts"), "restore_cwd": r.get("restore_cwd")})
    ck.exhaustive = False
    ck.extra["exhaustive_subdomains"] = ["every byte 1-255 except '/' as a name and inside a name (thorough; quick: every 7th)"]
    # put ... put (interleaved) ... restore: what several simultaneous trash-put runs trashed comes back all the same
    from . import parworlds
    parworlds.add_concurrent(ck, tier, seed + 202, oracles=("C02-restore", "no-traceback", "exit", "confinement"),
                             n_quick=50, n_thorough=800, follow="restore")
    return ck.finish(info, LEVEL_NOTE, RULE)


def replay(path):
    import json
    from ..runner import unjsonable
    from . import parworlds
    rc = parworlds.replay_concurrent("C02", path, oracles=("C02-restore", "no-traceback", "exit", "confinement"))
    if rc is not None:
        return rc
    obj = unjsonable(json.load(open(path)))
    tasks = []
    if isinstance(obj.get("replay"), dict) and obj["replay"].get("task"):
        tasks.append(obj["replay"]["task"])
    tasks += [c["task"] for c in obj.get("disagreeing_cases", []) if c and c.get("task")]
    rc = 0
    for t in tasks:
        r = nested_pipeline(t) if t.get("nested") else pipeline(t)
        print(json.dumps({"name": r["name"], "problems": r.get("problems"), "mismatch": r["mismatch"], "tags": r["tags"]}, indent=1, default=repr))
        if r.get("problems") or r["mismatch"]:
            print("VIOLATION property=C02 replay=%s" % path)
            rc = 1
    return rc
