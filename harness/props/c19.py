"""C19 — a malformed trash entry never prevents the well-formed ones from being handled."""
import os
import re

from ..core import Check, audit
from ..model import cmd_argv, snap_to_state
from ..readfamily import absorb, eval_task, replay_family, tasks_for
from ..runner import jsonable, run_tasks, task_rng
from ..sandbox import run_world
from ..worldgen import gen_trash_world

def tweak(world, rng):
    if world["cmd"] == "restore":
        world["stdin"] = rng.choice([b"0", b"", b"0-1", b"1", b"0,1"]) + b"\n"
    if world["cmd"] == "empty" and world["opts"].get("days", 0) and world["opts"]["days"] >= 10 ** 9:
        world["opts"]["days"] = 30
        world["argv"] = cmd_argv(world)
    return world


CFG = {"cmds": ["list", "restore", "rm", "empty", "empty"], "oracles": ("effects", "listing", "bag"),
       "violations": ("effects", "listing", "no-traceback"), "profile": "malformed", "states": False, "tweak": tweak}
LEVEL_NOTE = ("theorems: the readers are item-wise maps over the sorted name list (an item yields an entry, a diagnostic "
              "about itself, or nothing), item-wise readers are insensitive to interleaved items that yield nothing, the "
              "sort is total, malformed items issue no call in trash-rm / trash-empty DAYS; C19Cmd lifts this to the loops and commands: with malformed neighbours interleaved anywhere the trash-empty loop is the SAME run as over the well-formed names alone, trash-rm likewise up to its diagnostics, trash-list (every oracle) prints exactly the well-formed lines and one diagnostic per other info file; counterexamples say what malformed means per command")
RULE = ("seeded trash worlds with 1-3 well-formed entries per trash dir and 2-5 malformed neighbours out of 14 kinds "
        "(non-.trashinfo files, empty, truncated, binary, non-UTF-8, missing Path / DeletionDate, invalid date, info without "
        "payload, payload without info, odd stems, directory or dangling symlink named *.trashinfo, duplicate keys + CRLF); "
        "each world is also run with the malformed items deleted and the outputs / effects on the well-formed entries compared")


def strip_malformed(world):
    good = {(e["tdir"], e["name"]) for e in world["meta"]["entries"]}
    tdirs = {t for t, _ in world["meta"]["tdirs"]}
    keep = []
    for n in world["nodes"]:
        p = n["p"]
        drop = False
        for t in tdirs:
            for sub, cut in ((b"/info/", 10), (b"/files/", 0)):
                pre = t + sub
                if p.startswith(pre):
                    first = p[len(pre):].split(b"/")[0]
                    name = first[:-10] if cut and first.endswith(b".trashinfo") else (first if not cut else None)
                    if name is None or (t, name) not in good:
                        drop = True
        if not drop:
            keep.append(n)
    w = dict(world)
    w["nodes"] = keep
    return w


def good_lines(world, out, cmd):
    locs = [e["loc"] for e in world["meta"]["entries"]]
    res = []
    for loc in locs:
        for m in re.finditer(rb"(?m)^(?: *\d+ )?(\S+ \S+|None) " + re.escape(loc) + rb"$", out):
            res.append((m.group(1), loc))
    return sorted(res)


def diff_task(task):
    rng = task_rng("C19d", task["seed"], task["i"])
    cmd = ["list", "restore", "rm", "empty"][task["i"] % 4]
    world = gen_trash_world(rng, cmd, "malformed")
    if cmd == "restore":
        world["stdin"] = b"\n"          # indices shift between the two worlds: compare the listing only
    clean = strip_malformed(world)
    a = run_world(world, {})
    c = run_world(clean, {})
    out = {"cmd": cmd, "problems": []}
    # (DAYS beyond timedelta's range aborts trash-empty at the first dated entry it meets, whoever wrote that entry:
    #  an added neighbour that carries a date can be that first one - not an effect of malformedness)
    from ..readfamily import days_out_of_range
    if a.get("exc") and not c.get("exc") and not (a["exc"] == "OverflowError" and days_out_of_range(world)):
        out["problems"].append("traceback with malformed neighbours: %s" % a["exc"])
    if cmd in ("list", "restore"):
        if good_lines(world, a["stdout"], cmd) != good_lines(world, c["stdout"], cmd):
            out["problems"].append("well-formed entries listed differently")
    else:
        sa, sc = snap_to_state(a["after"]), snap_to_state(c["after"])
        for e in world["meta"]["entries"]:
            for p in (e["tdir"] + b"/info/" + e["name"] + b".trashinfo", e["tdir"] + b"/files/" + e["name"]):
                if (p in sa) != (p in sc):
                    out["problems"].append("effect on %r differs" % p)
    if out["problems"]:
        out["world"] = jsonable(world)
        out["stderr"] = repr(a["stderr"][-800:])
    return out


def crowd_world(seed, i):
    """a hundred and more malformed neighbours of ONE kind (directories named *.trashinfo, dangling links, empty files)
    around a few well-formed entries, run with a small allowance of open files: whatever each neighbour costs, it must be
    given back before the next one"""
    from ..model import W
    from ..sandbox import MODEL_ROOT as R
    rng = task_rng("C19crowd", seed, i)
    w = W()
    home = w.dir(R + b"/home/u")
    t = home + b"/.local/share/Trash"
    w.dir(t, 0o700)
    w.dir(t + b"/files", 0o700)
    w.dir(t + b"/info", 0o700)
    kind = ["dir", "dangling", "empty", "binary"][i % 4]
    for j in range(130):
        p = t + b"/info/crowd%03d.trashinfo" % j
        if kind == "dir":
            w.dir(p)
        elif kind == "dangling":
            w.link(p, b"nowhere")
        elif kind == "empty":
            w.file(p, b"")
        else:
            w.file(p, b"\xff\xfe\x00 junk")
    entries = []
    for j in range(5):
        nm = b"zz-good%d" % j                     # listed after the crowd
        loc = home + b"/docs/" + nm
        w.file(t + b"/info/" + nm + b".trashinfo", b"[Trash Info]\nPath=" + loc + b"\nDeletionDate=2020-01-0%dT00:00:00\n" % (j + 1), 0o600)
        w.file(t + b"/files/" + nm, b"good %d" % j)
        entries.append({"tdir": t, "name": nm, "loc": loc, "rec": loc, "date": "2020-01-0%dT00:00:00" % (j + 1), "base": None})
    cmd = ["list", "rm", "empty", "restore"][(i // 4) % 4]
    opts, args, stdin, env = {}, [], None, {"HOME": home}
    if cmd == "rm":
        args = [b"zz-good*"]
    elif cmd == "empty":
        env["TRASH_DATE"] = b"2024-03-02T12:00:00"
        opts = {"now": [2024, 3, 2, 12, 0, 0], "days": 30}
    elif cmd == "restore":
        opts = {"path": b"/", "sort": "date"}
        stdin = b"0\n"
    world = w.world(env=env, uid=1000, cwd=home, cmd=cmd, opts=opts, args=args, stdin=stdin,
                    meta={"entries": entries, "tdirs": [(t, None)], "profile": "crowd", "payload_kinds": ["file"], "sentinels": []})
    world["argv"] = cmd_argv(world)
    return world


def run(tier, seed):
    ck = Check("C19", tier, seed)
    info = audit("C19")
    results = run_tasks(eval_task, tasks_for("C19", seed, CFG, 300 if tier == "quick" else 4000))
    for r in results:
        if "machinery" not in r and any(t.startswith("uncaught:") for t in r["tags"]):
            r["bad"].append({"oracle": "no-traceback", "verdict": [t for t in r["tags"] if t.startswith("uncaught:")][0],
                             "sig": {"oracle": "no-traceback", "cmd": r["summary"]["cmd"]}})
    absorb(ck, results, CFG)
    crowd_cfg = dict(CFG, tweak=None, plan={"nofile": 64})
    crowd = run_tasks(eval_task, [{"pid": "C19", "seed": seed, "i": i, "cfg": crowd_cfg, "world": crowd_world(seed, i)}
                                  for i in range(16 if tier == "quick" else 64)])
    for r in crowd:
        if "machinery" not in r and any(t.startswith("uncaught:") for t in r["tags"]):
            r["bad"].append({"oracle": "no-traceback", "verdict": [t for t in r["tags"] if t.startswith("uncaught:")][0],
                             "sig": {"oracle": "no-traceback", "cmd": r["summary"]["cmd"]}})
    absorb(ck, crowd, crowd_cfg)
    diffs = run_tasks(diff_task, [{"seed": seed, "i": i} for i in range(160 if tier == "quick" else 2500)])
    for k, r in enumerate(diffs):
        if "machinery" in r:
            from ..lean import MachineryError
            raise MachineryError(r["machinery"])
        ck.case(("with-vs-without", k, r["cmd"]), tags=["with-vs-without:" + r["cmd"]])
        if r["problems"]:
            ck.violation("malformed-neighbours-change-the-outcome", {"oracle": "with-vs-without", "cmd": r["cmd"]}, r)
    return ck.finish(info, LEVEL_NOTE, RULE)


def replay(path):
    return replay_family("C19", path, CFG)
