"""Checks about trash-list / trash-restore / trash-empty / trash-rm share the trash-world
generator, readcheck.evaluate and this driver."""
import json
import os

from . import readcheck
from .core import VERIF
from .lean import MachineryError
from .runner import driver, jsonable, run_tasks, task_rng, unjsonable
from .worldgen import gen_trash_world


def summary(world):
    return {"cmd": world["cmd"], "opts": {k: (repr(v) if isinstance(v, (bytes, list)) else v) for k, v in world.get("opts", {}).items()},
            "args": [repr(a) for a in world.get("args", [])], "stdin": repr(world.get("stdin")), "cwd": repr(world["cwd"]),
            "mounts": [repr(m) for m in world["mounts"]], "entries": len(world["meta"]["entries"]), "nodes": len(world["nodes"])}


def days_out_of_range(world):
    """DAYS so large that `now - DAYS days` is no date any more: trash-empty then aborts at the first dated entry, as
    documented (the model's `overflow`); any other OverflowError is nobody's business to raise"""
    import datetime
    o = world.get("opts", {})
    if o.get("days") is None or not o.get("now"):
        return False
    try:
        datetime.datetime(*o["now"]) - datetime.timedelta(days=o["days"])
        return False
    except OverflowError:
        return True


def eval_task(task):
    cfg = task["cfg"]
    if "world" in task:
        world = task["world"]
    else:
        rng = task_rng(task["pid"], task["seed"], task["i"])
        cmd = cfg["cmds"][task["i"] % len(cfg["cmds"])]
        rc = True if cfg.get("real_clock_every") and task["i"] % cfg["real_clock_every"] == 0 else None
        world = gen_trash_world(rng, cmd, cfg.get("profile", "mixed"), real_clock=rc)
        if cfg.get("tweak"):
            world = cfg["tweak"](world, rng)
    r = readcheck.evaluate(world, driver(), want_states=cfg.get("states", False), oracles=cfg["oracles"], plan=cfg.get("plan"),
                           interrupt_sweep=cfg.get("interrupt_sweep", 0) if task.get("i", 0) % 3 == 0 else 0)
    out = {"key": (world["cmd"], repr(sorted(world.get("opts", {}).items())), tuple(world.get("args", [])), world.get("stdin"),
                   world["cwd"], len(world["nodes"]), tuple(world["mounts"])),
           "tags": r["tags"] + ["profile:" + world["meta"]["profile"]] + ["payload:" + k for k in set(world["meta"]["payload_kinds"])],
           "summary": summary(world), "nontrivial": bool(r["trace"]) or bool(r["stdout"]) or bool(r["stderr"]),
           "mismatch": r["mismatch"], "bad": [], "n_states": r.get("n_states", 0)}
    for name, v in r["oracle"].items():
        out["tags"].append("oracle:%s:%s" % (name, "ok" if v["ok"] else v["verdict"][:60]))
        if not v["ok"]:
            out["bad"].append({"oracle": name, "verdict": v["verdict"],
                               "sig": {"oracle": name, "cmd": world["cmd"], "verdict": v["verdict"].split(" ")[0][:60],
                                       "restore_class": r["notes"].get("restore_class")}})
    if r["exc"] and not (world["cmd"] == "empty" and (
            (r["exc"] == "OverflowError" and days_out_of_range(world)) or
            (r["exc"] == "EOFError" and world.get("stdin") is None))):       # -i and end of input at the prompt (nothing is changed)
        out["tags"].append("uncaught:" + str(r["exc"]))
    if r["mismatch"] or out["bad"]:
        out["world"] = jsonable(world)
        out["stdout"] = repr(r["stdout"][-1200:])
        out["stderr"] = repr(r["stderr"][-1200:])
    return out


def absorb(ck, results, cfg, component="Model.Cmds"):
    for r in results:
        if "machinery" in r:
            raise MachineryError(r["machinery"])
        ck.case(r["key"], nontrivial=r["nontrivial"], tags=r["tags"], sample=r["summary"])
        ck.traces += 1
        ck.extra["crash_states_checked"] = ck.extra.get("crash_states_checked", 0) + r.get("n_states", 0)
        for m in r["mismatch"]:
            ck.disagreement("%s vs trashcli (%s)" % (component, m["what"]),
                            {"world": r.get("world"), "difference": m, "stdout": r.get("stdout"), "stderr": r.get("stderr")})
        for b in r["bad"]:
            if b["oracle"] in cfg["violations"]:
                ck.violation(b["verdict"], b["sig"], {"world": r.get("world"), "oracle": b["oracle"], "verdict": b["verdict"],
                                                      "stdout": r.get("stdout"), "stderr": r.get("stderr")})


def tasks_for(pid, seed, cfg, n):
    tasks = []
    corpus = os.path.join(VERIF, "corpus", pid)
    if os.path.isdir(corpus):
        for f in sorted(os.listdir(corpus)):
            w = unjsonable(json.load(open(os.path.join(corpus, f))))
            tasks.append({"pid": pid, "seed": seed, "i": -1, "cfg": cfg, "world": w.get("world", w)})
    tasks += [{"pid": pid, "seed": seed, "i": i, "cfg": cfg} for i in range(n)]
    return tasks


def add_worlds(ck, pid, seed, cfg, n):
    """run n worlds of this family into an existing Check (used by function-level checks too)"""
    results = run_tasks(eval_task, tasks_for(pid, seed, cfg, n))
    absorb(ck, results, cfg)
    # DESIGN §5: correspondence broken, no oracle failure yet -> search further for a failing input
    if ck.disagreements and not ck.violations:
        before = len(ck.disagreements)
        extra = run_tasks(eval_task, [{"pid": pid, "seed": seed + 7919, "i": i, "cfg": cfg} for i in range(min(4 * n, 3000))])
        absorb(ck, extra, cfg)
        ck.extra["failing_input_search"] = {"extra_worlds": len(extra), "found": len(ck.violations),
                                            "disagreements_before": before, "disagreements_after": len(ck.disagreements)}


def replay_family(pid, path, cfg):
    obj = unjsonable(json.load(open(path)))
    worlds = []
    if isinstance(obj.get("replay"), dict) and obj["replay"].get("world"):
        worlds.append(obj["replay"]["world"])
    for c in obj.get("disagreeing_cases", []):
        if c and c.get("world"):
            worlds.append(c["world"])
    rc = 0
    for w in worlds:
        r = eval_task({"pid": pid, "seed": 0, "i": -1, "cfg": cfg, "world": w})
        print(json.dumps({"mismatch": r["mismatch"], "bad": r["bad"], "summary": r["summary"]}, indent=1, default=repr))
        if r["mismatch"] or [b for b in r["bad"] if b["oracle"] in cfg["violations"]]:
            print("VIOLATION property=%s replay=%s" % (pid, path))
            rc = 1
    return rc
