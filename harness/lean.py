"""Client for the Lean model driver (line protocol, one JSON object per line)."""
import json
import os
import subprocess
import sys

VERIF = os.path.dirname(os.path.dirname(os.path.abspath(__file__)))
LEAN_DIR = os.environ.get("VERIF_LEAN_DIR", os.path.join(VERIF, "lean", "TrashVerif"))   # scratch copies of the Lean project while a model change is in work
DRIVER = os.path.join(LEAN_DIR, ".lake", "build", "bin", "driver")


class MachineryError(Exception):
    """An internal error of the verification machinery (never a VIOLATION): exit 2."""


def ensure_built(log=sys.stderr):
    """(Re)build the Lean library (proofs) and the native driver.  No-op when up to date."""
    p = subprocess.run(["lake", "build", "TrashVerif", "driver"], cwd=LEAN_DIR,
                       stdout=subprocess.PIPE, stderr=subprocess.STDOUT, text=True)
    if p.returncode != 0:
        log.write(p.stdout)
        raise MachineryError("lake build failed")
    return p.stdout


def hx(b):
    return bytes(b).hex().upper()


def unhx(s):
    return bytes.fromhex(s)


class Driver:
    def __init__(self):
        if not os.path.exists(DRIVER):
            ensure_built()
        self.p = subprocess.Popen([DRIVER], stdin=subprocess.PIPE, stdout=subprocess.PIPE,
                                  bufsize=0)
        self.n = 0

    def ask(self, req):
        return self.ask_many([req])[0]

    def ask_many(self, reqs, chunk=2000):
        """Pipeline requests in chunks (the driver answers line by line)."""
        out = []
        for i in range(0, len(reqs), chunk):
            part = reqs[i:i + chunk]
            data = "".join(json.dumps(r, separators=(",", ":")) + "\n" for r in part).encode()
            # write in a thread-free way: chunk sizes are small enough for pipe buffers
            # only when answers are consumed; so interleave via communicate-like loop
            import threading
            t = threading.Thread(target=self._write, args=(data,))
            t.start()
            for _ in part:
                line = self.p.stdout.readline()
                if not line:
                    t.join()
                    raise MachineryError("Lean driver died")
                r = json.loads(line)
                if "error" in r:
                    t.join()
                    raise MachineryError("Lean driver error: %s" % r["error"])
                out.append(r)
            t.join()
            self.n += len(part)
        return out

    def _write(self, data):
        self.p.stdin.write(data)
        self.p.stdin.flush()

    def close(self):
        try:
            self.p.stdin.close()
            self.p.wait(timeout=5)
        except Exception:
            self.p.kill()
