"""Run the real trash-cli commands on a real POSIX directory tree, confined to a scratch sandbox.

A *world* (see worldgen.py) names everything with the model prefix b"/SBX"; here that prefix is
mapped to a real scratch directory.  The command runs in-process in a forked child with
  * a virtual mount table (os.path.ismount, os_mount_points, EXDEV/EBUSY on rename/rmdir),
  * a tracer around every mutating os/builtins entry point (trace, crash-state snapshots,
    fault injection, confinement guard),
  * scripted uid, stdin, random.randint.
"""
import builtins
import datetime
import errno as errno_mod
import io
import json
import os
import random
import shutil
import stat
import sys
import tempfile
import time
import traceback

from .core import import_repo
from .lean import MachineryError

MODEL_ROOT = b"/SBX"
MTIME_EPOCH = 1_000_000_000      # worlds use mtimes in [EPOCH, EPOCH + 10^6); anything later is "fresh" (0)
MTIME_LIMIT = MTIME_EPOCH + 1_000_000
SCRATCH_BASE = "/dev/shm" if os.path.isdir("/dev/shm") else None


# ------------------------------------------------------------------------------------------------
# building and snapshotting
# ------------------------------------------------------------------------------------------------

class Sandbox:
    def __init__(self):
        self.tmp = os.path.realpath(tempfile.mkdtemp(prefix="vf", dir=SCRATCH_BASE))
        self.root = os.path.join(self.tmp, "SBX")
        self.rootb = os.fsencode(self.root)
        for ch in self.root:
            if not (ch.isalnum() or ch in "/_-."):
                raise MachineryError("scratch path has characters that quote() would escape: " + self.root)

    # model bytes -> real bytes (paths, link targets, file contents, argv, env)
    def to_real(self, b):
        return b.replace(MODEL_ROOT, self.rootb)

    def to_model(self, b):
        return b.replace(self.rootb, MODEL_ROOT)

    def build(self, world):
        os.mkdir(self.root, 0o755)
        nodes = sorted(world["nodes"], key=lambda n: n["p"])
        for n in nodes:
            p = self.to_real(n["p"])
            if p == self.rootb:
                os.chmod(p, n.get("mode", 0o755))
                continue
            if n["k"] == "d":
                os.mkdir(p)
                os.chmod(p, n.get("mode", 0o755))
            elif n["k"] == "f" and n.get("hardlink"):
                continue                      # second pass: the other name may not exist yet
            elif n["k"] == "f" and n.get("special") == "fifo":
                os.mkfifo(p)
                os.chmod(p, n.get("mode", 0o644))
            elif n["k"] == "f":
                with open(p, "wb") as f:
                    f.write(self.to_real(n.get("data", b"")))
                os.chmod(p, n.get("mode", 0o644))
            elif n["k"] == "l":
                os.symlink(self.to_real(n["target"]), p)
            else:
                raise MachineryError("bad node kind")
        for n in nodes:
            if n.get("owner") is not None:           # an owner the user database does not know (archives, NFS, containers)
                os.lchown(self.to_real(n["p"]), n["owner"], n["owner"])
        for n in nodes:
            if n["k"] == "f" and n.get("hardlink"):
                src = self.to_real(n["hardlink"])
                if os.path.isfile(src) and not os.path.islink(src):
                    os.link(src, self.to_real(n["p"]))
                else:                                   # (a later tweak of the world replaced the other name: a plain file)
                    with open(self.to_real(n["p"]), "wb") as f:
                        f.write(self.to_real(n.get("data", b"")))
                    os.chmod(self.to_real(n["p"]), n.get("mode", 0o644))
        for n in reversed(nodes):
            if n["k"] != "l":
                t = n.get("mtime", MTIME_EPOCH)
                os.utime(self.to_real(n["p"]), (t, t))

    def snapshot(self):
        """canonical node list: (model path, kind, data, mode, mtime, target), sorted by path"""
        out = []

        def visit(real, model):
            st = os.lstat(real)
            if stat.S_ISLNK(st.st_mode):
                out.append((model, "l", b"", 0, 0, self.to_model(os.readlink(real))))
            elif stat.S_ISDIR(st.st_mode):
                out.append((model, "d", b"", stat.S_IMODE(st.st_mode), canon_mtime(st), b""))
                with os.scandir(real) as it:
                    names = sorted(e.name for e in it)
                for name in names:
                    visit(real + b"/" + name, model + b"/" + name)
            elif stat.S_ISREG(st.st_mode):
                with open(real, "rb") as f:
                    data = f.read()
                out.append((model, "f", self.to_model(data), stat.S_IMODE(st.st_mode), canon_mtime(st), b""))
            elif stat.S_ISFIFO(st.st_mode):
                # (never opened: that would block) the model's view of a named pipe is an empty regular file
                out.append((model, "f", b"", stat.S_IMODE(st.st_mode), canon_mtime(st), b""))
            else:
                out.append((model, "?", b"", 0, 0, b""))

        visit(self.rootb, MODEL_ROOT)
        out.sort()
        return out

    def destroy(self):
        shutil.rmtree(self.tmp, ignore_errors=True)


def canon_mtime(st):
    t = st.st_mtime_ns // 1_000_000_000
    return t if MTIME_EPOCH <= t < MTIME_LIMIT else 0


def nodes_to_snapshot(nodes):
    """the canonical snapshot a world's node list corresponds to (before-state)"""
    out = []
    for n in nodes:
        if n["k"] == "d":
            out.append((n["p"], "d", b"", n.get("mode", 0o755), n.get("mtime", MTIME_EPOCH), b""))
        elif n["k"] == "f":
            out.append((n["p"], "f", n.get("data", b""), n.get("mode", 0o644), n.get("mtime", MTIME_EPOCH), b""))
        else:
            out.append((n["p"], "l", b"", 0, 0, n["target"]))
    out.sort()
    return out


# ------------------------------------------------------------------------------------------------
# the child: patches, tracer, injection
# ------------------------------------------------------------------------------------------------

CLOCK_T0 = datetime.datetime(2031, 1, 1, 0, 0, 0)
CLOCK_STEP = 3600


class Crash(BaseException):
    pass


class Tracer:
    """wraps the mutating entry points; all bookkeeping is in model terms"""

    def __init__(self, sb, world, plan):
        self.sb = sb
        self.world = world
        self.plan = plan or {}
        self.trace = []            # [op, [args...], result]
        self.states = []           # snapshots before each mutating op (when plan["states"])
        self.count = 0             # mutating ops issued
        self.kind_count = {}
        self.fds = {}              # fd -> model path
        self.escapes = []
        self.mounts_real = set(self.sb.to_real(m) for m in world.get("mounts", [])) | {sb.rootb, b"/"}
        self.budget = plan.get("budget", 20000)
        self.orig = {}
        self.internal = 0          # >0 while the harness itself uses os.* (never counted, never faulted)
        self.reads = 0             # stat-class calls issued by the code under test
        self.read_log = []         # (kind, model path) of each of them, when plan["log_reads"]
        self.interrupted = False
        self.on_crash = None
        self.gate = None           # (req_w, ack_r): block before every call until the scheduler grants a step
        self.yields = 0

    # -- helpers ---------------------------------------------------------------------------------
    def canon(self, path, dir_fd=None):
        """canonical real path of the entry `path` names (parent resolved, last component kept)"""
        self.internal += 1
        try:
            return self._canon(path, dir_fd)
        finally:
            self.internal -= 1

    def full(self, path):
        self.internal += 1
        try:
            return os.path.realpath(os.fsencode(path))
        finally:
            self.internal -= 1

    def yield_point(self):
        if self.gate is None or self.internal:
            return
        self.yields += 1
        w = self.orig.get("write", os.write)
        w(self.gate[0], b"y")
        if os.read(self.gate[1], 1) == b"":
            os._exit(9)

    def read_point(self, kind, path):
        """a stat-class call of the code under test: a fault point (and yield point), not traced"""
        if self.internal:
            return
        self.yield_point()
        k = self.reads
        self.reads += 1
        if self.plan.get("log_reads") and len(self.read_log) < 5000:
            try:
                self.read_log.append([kind, self.model(os.path.abspath(os.fsencode(path))).hex()])
            except Exception:
                self.read_log.append([kind, ""])
        if self.reads > self.budget * 20:
            raise Crash("budget")
        for f in self.plan.get("read_faults", []):
            if f.get("index") == k or (f.get("kind") == kind and f.get("persistent")):
                raise OSError(getattr(errno_mod, f["errno"]), os.strerror(getattr(errno_mod, f["errno"])), path)

    def _canon(self, path, dir_fd=None):
        p = os.fsencode(path)
        if dir_fd is not None and not p.startswith(b"/"):
            base = os.fsencode(os.readlink("/proc/self/fd/%d" % dir_fd))
            p = base + b"/" + p
        if not p.startswith(b"/"):
            p = os.path.join(os.getcwdb(), p)
        # physical resolution as the kernel does it: a symbolic link is followed BEFORE a '..' after it is applied
        # (os.path.abspath would collapse "link/.." textually and name another entry)
        q = p.rstrip(b"/") or b"/"
        d, b = os.path.split(q)
        if b in (b"", b".", b".."):
            return os.path.realpath(q)
        return os.path.join(os.path.realpath(d), b)

    def model(self, real):
        return self.sb.to_model(real)

    def inside(self, real):
        return real == self.sb.rootb or real.startswith(self.sb.rootb + b"/")

    def dev(self, real):
        best = b"/"
        for m in self.mounts_real:
            if (real == m or real.startswith(m + b"/")) and len(m) > len(best):
                best = m
        return best

    def before(self, op, paths, extra=()):
        """common prologue of a mutating op: budget, confinement, crash, state, fault"""
        if self.count >= self.budget:
            self.trace.append(["budget-exhausted", [], "abort"])
            raise Crash("budget")
        self.yield_point()
        for p in paths:
            if not self.inside(p):
                self.escapes.append([op, p.decode("utf-8", "backslashreplace")])
                raise PermissionError(errno_mod.EACCES, "verif: operation outside the sandbox", p)
        idx = self.count
        self.count += 1
        k = self.kind_count.get(op, 0)
        self.kind_count[op] = k + 1
        if self.plan.get("states"):
            self.internal += 1
            try:
                self.states.append(self.sb.snapshot())
            finally:
                self.internal -= 1
        if self.plan.get("crash_at") == idx:
            if self.on_crash is not None:
                self.on_crash()          # reports and _exit()s: a raised exception could be swallowed by a bare except
            raise Crash("crash")
        e = None
        for f in self.plan.get("faults", []):
            if ("index" in f and f["index"] == idx) or ("op" in f and f["op"] == op and
                                                        (f.get("nth") == k or f.get("persistent"))):
                e = f["errno"]
        rec = [op, [self.model(p).hex() for p in paths] + list(extra), "ok"]
        self.trace.append(rec)
        if e is not None:
            rec[2] = e
            raise OSError(getattr(errno_mod, e), os.strerror(getattr(errno_mod, e)), paths[0] if paths else None)
        return rec

    def run_real(self, rec, fn, *a, **kw):
        try:
            return fn(*a, **kw)
        except OSError as ex:
            rec[2] = errno_mod.errorcode.get(ex.errno, "OTHER")
            raise

    # -- installation ----------------------------------------------------------------------------
    def install(self):
        o = self.orig
        for name in ("mkdir", "rename", "replace", "unlink", "remove", "rmdir", "symlink", "open", "write", "close",
                     "chmod", "utime", "link", "sendfile", "getuid", "isatty", "listdir", "scandir", "truncate",
                     "lchown", "chown"):
            if hasattr(os, name):
                o[name] = getattr(os, name)
        o["bopen"] = builtins.open
        o["ismount"] = os.path.ismount
        t = self

        def mkdir(path, mode=0o777, *, dir_fd=None):
            c = t.canon(path, dir_fd)
            rec = t.before("mkdir", [c], [mode])
            return t.run_real(rec, o["mkdir"], path, mode, dir_fd=dir_fd)

        def rename(src, dst, *, src_dir_fd=None, dst_dir_fd=None):
            a, c = t.canon(src, src_dir_fd), t.canon(dst, dst_dir_fd)
            rec = t.before("rename", [a, c])
            t.internal += 1
            try:
                exists_a, exists_c = os.path.lexists(a), os.path.lexists(c)
            finally:
                t.internal -= 1
            if exists_a:
                if a in t.mounts_real:
                    rec[2] = "EBUSY"
                    raise OSError(errno_mod.EBUSY, "Device or resource busy (virtual mount point)", src)
                if t.dev(os.path.dirname(a)) != t.dev(os.path.dirname(c)):
                    rec[2] = "EXDEV"
                    raise OSError(errno_mod.EXDEV, "Invalid cross-device link (virtual)", src)
                if c in t.mounts_real and exists_c:
                    rec[2] = "EBUSY"
                    raise OSError(errno_mod.EBUSY, "Device or resource busy (virtual mount point)", dst)
            return t.run_real(rec, o["rename"], src, dst, src_dir_fd=src_dir_fd, dst_dir_fd=dst_dir_fd)

        def unlink(path, *, dir_fd=None):
            c = t.canon(path, dir_fd)
            rec = t.before("unlink", [c])
            return t.run_real(rec, o["unlink"], path, dir_fd=dir_fd)

        def rmdir(path, *, dir_fd=None):
            c = t.canon(path, dir_fd)
            rec = t.before("rmdir", [c])
            t.internal += 1
            try:
                is_real_dir = os.path.isdir(c) and not os.path.islink(c)
            finally:
                t.internal -= 1
            if c in t.mounts_real and is_real_dir:
                rec[2] = "EBUSY"
                raise OSError(errno_mod.EBUSY, "Device or resource busy (virtual mount point)", path)
            return t.run_real(rec, o["rmdir"], path, dir_fd=dir_fd)

        def symlink(src, dst, target_is_directory=False, *, dir_fd=None):
            c = t.canon(dst, dir_fd)
            rec = t.before("symlink", [c], [t.model(os.fsencode(src)).hex()])
            return t.run_real(rec, o["symlink"], src, dst, dir_fd=dir_fd)

        def os_open(path, flags, mode=0o777, *, dir_fd=None):
            if flags & (os.O_WRONLY | os.O_RDWR | os.O_CREAT | os.O_TRUNC | os.O_APPEND):
                c = t.full(path) if not (flags & os.O_EXCL) and not (flags & os.O_NOFOLLOW) \
                    else t.canon(path, dir_fd)
                op = "createExcl" if flags & os.O_EXCL else ("createTrunc" if flags & (os.O_CREAT | os.O_TRUNC) else "openw")
                rec = t.before(op, [c], [mode])
                fd = t.run_real(rec, o["open"], path, flags, mode, dir_fd=dir_fd)
                t.fds[fd] = c
                return fd
            return o["open"](path, flags, mode, dir_fd=dir_fd)

        def write(fd, data):
            if fd in t.fds:
                rec = t.before("write", [t.fds[fd]], [t.sb.to_model(bytes(data)).hex()])
                return t.run_real(rec, o["write"], fd, data)
            return o["write"](fd, data)

        def close(fd):
            if fd in t.fds:
                c = t.fds[fd]
                rec = t.before("close", [c])
                r = t.run_real(rec, o["close"], fd)
                t.fds.pop(fd, None)
                return r
            return o["close"](fd)

        def sendfile(out_fd, in_fd, offset, count):
            if out_fd in t.fds:
                rec = t.before("write", [t.fds[out_fd]], ["sendfile"])
                return t.run_real(rec, o["sendfile"], out_fd, in_fd, offset, count)
            return o["sendfile"](out_fd, in_fd, offset, count)

        def chmod(path, mode, *, dir_fd=None, follow_symlinks=True):
            c = t.full(path) if follow_symlinks else t.canon(path, dir_fd)
            rec = t.before("chmod", [c], [mode])
            return t.run_real(rec, o["chmod"], path, mode, dir_fd=dir_fd, follow_symlinks=follow_symlinks)

        def utime(path, times=None, *, ns=None, dir_fd=None, follow_symlinks=True):
            c = t.full(path) if follow_symlinks else t.canon(path, dir_fd)
            rec = t.before("utime", [c])
            kw = {"dir_fd": dir_fd, "follow_symlinks": follow_symlinks}
            if ns is not None:
                kw["ns"] = ns
                return t.run_real(rec, o["utime"], path, **kw)
            return t.run_real(rec, o["utime"], path, times, **kw)

        def link(src, dst, **kw):
            c = t.canon(dst)
            rec = t.before("link", [c])
            return t.run_real(rec, o["link"], src, dst, **kw)

        def truncate(path, length):
            c = t.full(path) if not isinstance(path, int) else t.fds.get(path, b"?")
            rec = t.before("truncate", [c])
            return t.run_real(rec, o["truncate"], path, length)

        class BFile:
            """a file object opened for writing through builtins.open: writes are traced on flush/close"""

        def bopen(file, mode="r", *a, **kw):
            if isinstance(file, int) or not any(ch in mode for ch in "wax+"):
                return o["bopen"](file, mode, *a, **kw)
            c = t.full(file)
            rec = t.before("createExcl" if "x" in mode else ("createTrunc" if "w" in mode else "openw"), [c], [0o666])
            f = t.run_real(rec, o["bopen"], file, mode, *a, **kw)
            try:
                t.fds[f.fileno()] = c
            except Exception:
                pass
            return f

        def ismount(path):
            t.read_point("stat", path)
            t.internal += 1
            try:
                try:
                    st = os.lstat(path)
                except (OSError, ValueError):
                    return False
                if stat.S_ISLNK(st.st_mode):
                    return False
                return os.path.realpath(os.fsencode(path)) in t.mounts_real
            finally:
                t.internal -= 1

        for name in ("stat", "lstat", "access", "readlink"):
            o[name] = getattr(os, name)

        # The virtual volumes are visible in st_dev too (a program may compare device numbers instead of asking
        # os.path.ismount): every stat result handed to the program carries the number of the virtual volume the entry
        # lives on - os.stat / os.lstat / os.fstat and DirEntry.stat alike, so that they stay comparable with each other.
        vols = sorted(t.mounts_real)
        devno = {m: 7001 + k for k, m in enumerate(vols)}

        def with_dev(st, phys):
            if phys is None or not t.inside(phys):
                return st
            cls, (seq, extra) = st.__reduce__()
            seq = list(seq)
            seq[2] = devno[t.dev(phys)]
            # inode numbers are unique within ONE file system only: the first directory made on each fresh volume - its
            # .Trash-$uid, say - has the same number on all of them
            if os.path.basename(phys).startswith(b".Trash-") and os.path.dirname(phys) in t.mounts_real and len(vols) > 1:
                seq[1] = 2
            return os.stat_result(tuple(seq), extra)

        def phys_of(path, dir_fd, follow):
            t.internal += 1
            try:
                if isinstance(path, int):
                    return os.fsencode(os.readlink("/proc/self/fd/%d" % path))
                c = t._canon(path, dir_fd)
                return os.path.realpath(c) if follow else c
            except (OSError, ValueError):
                return None
            finally:
                t.internal -= 1

        def mk_read(name):
            orig = o[name]

            def wrapper(path, *a, **kw):
                if not isinstance(path, int):
                    t.read_point(name, path)
                r = orig(path, *a, **kw)
                if name in ("stat", "lstat") and not t.internal:
                    follow = name == "stat" and kw.get("follow_symlinks", True)
                    r = with_dev(r, phys_of(path, kw.get("dir_fd"), follow))
                return r
            return wrapper
        os.stat, os.lstat, os.access, os.readlink = mk_read("stat"), mk_read("lstat"), mk_read("access"), mk_read("readlink")
        os.supports_follow_symlinks.add(os.stat)      # shutil looks the stand-in up there (copystat of a link's own attributes)
        o["fstat"] = os.fstat

        def fstat(fd):
            r = o["fstat"](fd)
            return r if t.internal else with_dev(r, phys_of(fd, None, False))
        os.fstat = fstat

        class Entry:
            """os.DirEntry with the virtual device number in its stat results"""
            def __init__(self, e, base=None):
                self._e = e
                self.name, self.path = e.name, e.path
                self._full = e.path if base is None else os.path.join(base, os.fsencode(e.name))

            def __fspath__(self):
                return self._e.path

            def inode(self):
                return self._e.inode()

            def is_dir(self, *, follow_symlinks=True):
                return self._e.is_dir(follow_symlinks=follow_symlinks)

            def is_file(self, *, follow_symlinks=True):
                return self._e.is_file(follow_symlinks=follow_symlinks)

            def is_symlink(self):
                return self._e.is_symlink()

            def is_junction(self):
                return False

            def stat(self, *, follow_symlinks=True):
                r = self._e.stat(follow_symlinks=follow_symlinks)
                return r if t.internal else with_dev(r, phys_of(self._full, None, follow_symlinks))

            def __repr__(self):
                return "<Entry %r>" % (self.name,)

        def listdir(path="."):
            if not isinstance(path, int):
                t.read_point("listdir", path)
            r = o["listdir"](path)
            return sorted(r, key=os.fsencode)

        class SortedScandir:
            def __init__(self, path):
                self.it = o["scandir"](path)
                base = None
                if isinstance(path, int):          # scandir(fd): the entries' paths are bare names
                    t.internal += 1
                    try:
                        base = os.fsencode(os.readlink("/proc/self/fd/%d" % path))
                    finally:
                        t.internal -= 1
                self.entries = [Entry(e, base) for e in sorted(self.it, key=lambda e: os.fsencode(e.name))]

                self.pos = 0

            def __iter__(self):
                return self

            def __next__(self):          # a real scandir object is its own iterator (os.walk relies on it)
                if self.pos >= len(self.entries):
                    raise StopIteration
                self.pos += 1
                return self.entries[self.pos - 1]

            def __enter__(self):
                return self

            def __exit__(self, *a):
                self.it.close()

            def close(self):
                self.it.close()

        def scandir(path="."):
            return SortedScandir(path)

        def interruptible(f):
            """plan["interrupt_after"] = k: a keyboard interrupt (SIGINT, Ctrl-C) is delivered right after mutating call k
            has returned - unlike a kill, the interpreter unwinds and runs the handlers on the way out"""
            def g(*a, **kw):
                before_n = t.count
                r = f(*a, **kw)
                if t.plan.get("interrupt_after") is not None and before_n <= t.plan["interrupt_after"] < t.count \
                        and not t.interrupted:
                    t.interrupted = True
                    raise KeyboardInterrupt()
                return r
            return g
        if t.plan.get("interrupt_after") is not None:
            # (only calls the program makes from Python code: open/write/close are issued from inside io objects, where an
            #  exception raised by the stand-in would corrupt the object's state - a real signal handler never runs there)
            mkdir, rename, unlink, rmdir, symlink, chmod, utime, link, truncate = [
                interruptible(f_) for f_ in (mkdir, rename, unlink, rmdir, symlink, chmod, utime, link, truncate)]
        os.mkdir, os.rename, os.replace, os.unlink, os.remove, os.rmdir = mkdir, rename, rename, unlink, unlink, rmdir
        os.symlink, os.open, os.write, os.close, os.chmod, os.utime, os.link = symlink, os_open, write, close, chmod, utime, link
        os.truncate = truncate
        if "sendfile" in o:
            os.sendfile = sendfile
        os.listdir, os.scandir = listdir, scandir
        builtins.open = bopen
        io.open = bopen
        os.path.ismount = ismount
        import posixpath
        posixpath.ismount = ismount
        uid = self.world.get("uid", 0)
        os.getuid = lambda: uid
        wo = self.world.get("opts", {}) if isinstance(self.world.get("opts"), dict) else {}
        # trash-empty without -i / -f asks exactly when stdin is a terminal: worlds say so with opts.ttyDefault
        tty = bool(wo.get("interactive")) if wo.get("ttyDefault") else bool(self.world.get("tty", False))
        os.isatty = lambda fd: tty if fd == 0 else o["isatty"](fd)
        ints = list(self.world.get("randints", []))
        import random as _r

        def randint(a, c):
            if ints:
                return ints.pop(0)
            return 4242 + len(t.trace) % 60000
        _r.randint = randint
        # what the mount listing shows: the canonical mount points, or the world's own spellings of them (trailing '/')
        mounts = [os.fsdecode(self.sb.to_real(m)) for m in (self.world.get("mountTable") or self.world.get("mounts", []))]
        # ... handed out the way the operating system does it: as the partition table psutil reads, each volume with a file
        # system type - device-backed ones (listed by disk_partitions()), and the network / FUSE / 9p types trash-cli accepts
        # (listed with all=True only).  The program's own filter (os_mount_points) runs on it.
        import collections
        import psutil
        Part = collections.namedtuple("sdiskpart", ["device", "mountpoint", "fstype", "opts"])
        kinds = ["ext4", "nfs4", "fuse.gocryptfs", "xfs", "btrfs", "p9", "fuse", "fuse.mergerfs", "fuse.glusterfs", "nfs"]
        off = len(self.world.get("nodes", [])) % 7
        table = [Part("/dev/v%d" % k, m, "ext4" if k == 0 else kinds[(k + off) % len(kinds)], "rw") for k, m in enumerate(mounts)]
        physical = ("ext4", "xfs", "btrfs")

        def disk_partitions(all=False):
            return [p_ for p_ in table if all or p_.fstype in physical]
        psutil.disk_partitions = disk_partitions
        # shutil caches function availability; make the fd-based rmtree use our wrappers (it looks os.* up at call time)


CMD_MAIN = {"put": "trashcli.put.main", "list": "trashcli.list.main", "restore": "trashcli.restore.main",
            "empty": "trashcli.empty.main", "rm": "trashcli.rm.main"}


def child_main(sb, world, plan, wfd, gate=None):
    result = {"exit": None, "stdout": "", "stderr": "", "trace": [], "exc": None, "escapes": [], "states": []}
    tracer = Tracer(sb, world, plan)
    tracer.gate = gate
    try:
        import importlib
        mod = importlib.import_module(CMD_MAIN[world["cmd"]])
        os.umask(0o022)
        env = {k: os.fsdecode(sb.to_real(v)) for k, v in world.get("env", {}).items()}
        os.environ.clear()
        os.environ.update(env)
        time.tzset()            # the program is started with this environment: TZ counts from the first clock reading on
        if world["cmd"] == "put":
            os.environ["TRASH_PUT_FAKE_UID_FOR_TESTING"] = str(world.get("uid", 0))
            # a clock that moves on its own: one hour per mutating call issued so far, so that "DeletionDate is the time
            # of trashing" can be told from "some time during this run" (see putcheck: oracle C03w)
            import trashcli.put.clock as _clk
            if not world.get("opts", {}).get("realPutClock"):
                _clk.RealClock.now = lambda self: CLOCK_T0 + datetime.timedelta(seconds=CLOCK_STEP * tracer.count)
            # (realPutClock: the program's own clock, in the time zone of the world's TZ - see putcheck, oracle C03w)
        if plan.get("nofile"):
            # a small allowance of open files: a descriptor that is opened must be closed again, however the entry looks
            import resource
            soft, hard = resource.getrlimit(resource.RLIMIT_NOFILE)
            resource.setrlimit(resource.RLIMIT_NOFILE, (min(plan["nofile"], hard), hard))
        os.chdir(sb.to_real(world.get("cwd", MODEL_ROOT)))
        sys.argv = ["trash-" + world["cmd"]] + [os.fsdecode(sb.to_real(a)) for a in world.get("argv", [])]
        out_b, err_b = io.BytesIO(), io.BytesIO()
        sys.stdout = io.TextIOWrapper(out_b, encoding="utf-8", errors="surrogateescape", write_through=True)
        sys.stderr = io.TextIOWrapper(err_b, encoding="utf-8", errors="surrogateescape", write_through=True)
        if plan.get("stdout_fault"):
            # one write to stdout fails (a reader that went away, a full disk), the others succeed
            so = plan["stdout_fault"]
            real_out = sys.stdout

            class FaultyStdout:
                encoding, errors = "utf-8", "surrogateescape"

                def __init__(self):
                    self.n = 0

                def write(self, text):
                    self.n += 1
                    if self.n - 1 == so["only"]:
                        raise OSError(getattr(errno_mod, so.get("errno", "EPIPE")), "stdout write failed (injected)")
                    return real_out.write(text)

                def flush(self):
                    return real_out.flush()

                def isatty(self):
                    return False
            sys.stdout = FaultyStdout()
        harness_err = sys.stderr
        if plan.get("stderr_fault"):
            # the diagnostics go to a full disk or a closed pipe: the n-th write to stderr fails (and every later one)
            sf = plan["stderr_fault"]
            real_err = sys.stderr

            class FaultyStderr:
                encoding, errors = "utf-8", "surrogateescape"

                def __init__(self):
                    self.n = 0

                def write(self, text):
                    self.n += 1
                    if self.n > sf["nth"]:
                        if sf.get("pipe"):
                            # a real pipe whose reader is gone: EPIPE for a program that ignores SIGPIPE (as Python does),
                            # death for one that asked for the default action
                            if not hasattr(self, "w"):
                                r_, self.w = os.pipe()
                                os.close(r_)
                            tracer.internal += 1
                            try:
                                return tracer.orig.get("write", os.write)(self.w, text.encode("utf-8", "surrogateescape"))
                            finally:
                                tracer.internal -= 1
                        raise OSError(getattr(errno_mod, sf["errno"]), os.strerror(getattr(errno_mod, sf["errno"])))
                    return real_err.write(text)

                def flush(self):
                    return real_err.flush()

                def isatty(self):
                    return False

                def fileno(self):
                    raise io.UnsupportedOperation("fileno")
            sys.stderr = None if sf.get("closed") else FaultyStderr()
        stdin = world.get("stdin")
        sys.stdin = io.TextIOWrapper(io.BytesIO(stdin if stdin is not None else b""), encoding="utf-8",
                                     errors="surrogateescape")
        import logging
        for h in logging.getLogger("trashcli.trash").handlers:
            if hasattr(h, "setStream"):
                h.setStream(sys.stderr)
        def on_crash():
            result["exit"] = "crash"
            result["stdout"] = out_b.getvalue().hex()
            result["stderr"] = err_b.getvalue().hex()
            result["trace"] = tracer.trace
            result["escapes"] = tracer.escapes
            result["states"] = []
            data = json.dumps(result).encode()
            w = tracer.orig.get("write", os.write)
            off = 0
            while off < len(data):
                off += w(wfd, data[off:off + 65536])
            os._exit(0)
        tracer.on_crash = on_crash
        tracer.install()
        t0 = time.time()
        if plan.get("reclimit"):
            # a small allowance of interpreter stack on top of what the harness itself uses: routines that call themselves
            # once per directory level (shutil.rmtree) give up on a modest tree, as they do on a very deep one otherwise
            import inspect
            sys.setrecursionlimit(len(inspect.stack(0)) + plan["reclimit"])
        fsize_old = None
        if plan.get("fsize") is not None:
            # the kernel itself refuses to let regular files grow beyond this size (EFBIG; SIGXFSZ is ignored, as in every
            # Python process): a write fault that reaches the program whatever routine it writes with
            import resource
            fsize_old = resource.getrlimit(resource.RLIMIT_FSIZE)
            resource.setrlimit(resource.RLIMIT_FSIZE, (plan["fsize"], fsize_old[1]))
        try:
            rc = mod.main()
            result["exit"] = 0 if rc is None else rc
        except SystemExit as e:
            result["exit"] = e.code if isinstance(e.code, int) else (0 if e.code is None else 1)
        except Crash as e:
            result["exit"] = "crash" if str(e) == "crash" else "budget"
        except BaseException as e:
            result["exit"] = 1
            result["exc"] = type(e).__name__
            harness_err.write("Traceback (most recent call last):\n%s: %s\n" % (type(e).__name__, e))
            result["tb"] = traceback.format_exc()[-1500:]
        if fsize_old is not None:
            resource.setrlimit(resource.RLIMIT_FSIZE, fsize_old)
        result["t0"], result["t1"] = t0, time.time()
        tracer.internal += 1
        if plan and plan.get("states"):
            tracer.states.append(sb.snapshot())
        result["stdout"] = out_b.getvalue().hex()
        result["stderr"] = err_b.getvalue().hex()
    except BaseException as e:
        result["machinery"] = "%s: %s\n%s" % (type(e).__name__, e, traceback.format_exc()[-2000:])
    result["trace"] = tracer.trace
    result["escapes"] = tracer.escapes
    result["reads"] = tracer.reads
    result["read_log"] = tracer.read_log
    result["states"] = [[[p.hex(), k, d.hex(), m, t, g.hex()] for (p, k, d, m, t, g) in s] for s in tracer.states]
    data = json.dumps(result).encode()
    w = tracer.orig.get("write", os.write)
    off = 0
    while off < len(data):
        off += w(wfd, data[off:off + 65536])
    os._exit(0)


def run_world(world, plan=None, keep=None, facts=None):
    """build the world, run the command in a forked child, return the observation"""
    import_repo()
    sb = Sandbox()
    try:
        sb.build(world)
        before = sb.snapshot()
        fact_values = facts(sb, world) if facts is not None else None
        rfd, wfd = os.pipe()
        pid = os.fork()
        if pid == 0:
            os.close(rfd)
            try:
                child_main(sb, world, plan or {}, wfd)
            finally:
                os._exit(3)
        os.close(wfd)
        chunks = []
        while True:
            c = os.read(rfd, 1 << 20)
            if not c:
                break
            chunks.append(c)
        os.close(rfd)
        _, status = os.waitpid(pid, 0)
        raw = b"".join(chunks)
        if not raw and (plan or {}).get("stderr_fault", {}).get("pipe") and os.WIFSIGNALED(status):
            # the program let a signal kill it (SIGPIPE at a write to the closed pipe): what it left behind is the outcome
            res = {"exit": "signal:%d" % os.WTERMSIG(status), "exc": None, "stdout": "", "stderr": "", "trace": [], "escapes": [],
                   "states": [], "t0": 0, "t1": 0}
        elif not raw:
            raise MachineryError("child died without a report (status %r)" % status)
        else:
            res = json.loads(raw)
        if "machinery" in res:
            raise MachineryError("harness failure in child: " + res["machinery"])
        after = sb.snapshot()
        if keep is not None:
            keep(sb)
        obs = {
            "exit": res["exit"], "exc": res.get("exc"), "tb": res.get("tb"),
            "stdout": sb.to_model(bytes.fromhex(res["stdout"])),
            "stderr": sb.to_model(bytes.fromhex(res["stderr"])),
            "trace": res["trace"], "escapes": res["escapes"],
            "before": before, "after": after,
            "states": [[(bytes.fromhex(p), k, bytes.fromhex(d), m, t, bytes.fromhex(g)) for (p, k, d, m, t, g) in s]
                       for s in res["states"]],
            "t0": res.get("t0"), "t1": res.get("t1"), "facts": fact_values, "reads": res.get("reads", 0), "read_log": res.get("read_log", []),
        }
        if res["escapes"]:
            obs["escaped"] = True
        return obs
    finally:
        sb.destroy()


def run_concurrent(world, procs, schedule, facts=None):
    """several commands on ONE sandbox, one wrapped call at a time as dictated by `schedule`
    (a list of process indices; afterwards round-robin).  `procs`: per-process overrides of the
    world (cwd, cmd, argv, args, opts, stdin)."""
    import_repo()
    sb = Sandbox()
    try:
        sb.build(world)
        before = sb.snapshot()
        worlds = [dict(world, **p) for p in procs]
        fact_values = [facts(sb, w) for w in worlds] if facts is not None else None
        req_r, ack_w, pids, resfiles = [], [], [], []
        for i, w in enumerate(worlds):
            rq_r, rq_w = os.pipe()
            ak_r, ak_w = os.pipe()
            resfile = os.path.join(sb.tmp, "result-%d.json" % i)
            pid = os.fork()
            if pid == 0:
                try:
                    os.close(rq_r)
                    os.close(ak_w)
                    for fd in req_r + ack_w:
                        os.close(fd)
                    wfd = os.open(resfile, os.O_WRONLY | os.O_CREAT, 0o600)
                    child_main(sb, w, {}, wfd, gate=(rq_w, ak_r))
                finally:
                    os._exit(3)
            os.close(rq_w)
            os.close(ak_r)
            req_r.append(rq_r)
            ack_w.append(ak_w)
            pids.append(pid)
            resfiles.append(resfile)
        waiting, finished = set(), set()

        def wait_ready(i):
            b = os.read(req_r[i], 1)
            if b == b"y":
                waiting.add(i)
            else:
                finished.add(i)
        for i in range(len(worlds)):
            wait_ready(i)
        executed = []
        k = 0
        rr = 0
        while waiting:
            if k < len(schedule) and schedule[k] in waiting:
                i = schedule[k]
            else:
                cands = sorted(waiting)
                i = cands[rr % len(cands)]
                rr += 1
            k += 1
            waiting.discard(i)
            executed.append(i)
            os.write(ack_w[i], b"g")
            wait_ready(i)
            if len(executed) > 200000:
                raise MachineryError("concurrent run does not finish")
        results = []
        for i, pid in enumerate(pids):
            os.waitpid(pid, 0)
            os.close(req_r[i])
            os.close(ack_w[i])
            with open(resfiles[i], "rb") as f:
                raw = f.read()
            os.unlink(resfiles[i])
            if not raw:
                raise MachineryError("concurrent child %d died without a report" % i)
            res = json.loads(raw)
            if "machinery" in res:
                raise MachineryError("harness failure in child: " + res["machinery"])
            results.append({"exit": res["exit"], "exc": res.get("exc"), "stderr": sb.to_model(bytes.fromhex(res["stderr"])),
                            "stdout": sb.to_model(bytes.fromhex(res["stdout"])), "trace": res["trace"], "escapes": res["escapes"]})
        after = sb.snapshot()
        return {"procs": results, "before": before, "after": after, "facts": fact_values, "executed": executed}
    finally:
        sb.destroy()
