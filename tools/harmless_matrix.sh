#!/bin/bash
# tools/harmless_matrix.sh [<diff> ...] — run every quick check against every behaviour-preserving change under
# seeded/harmless/ (each applied to its own scratch copy of /repo); a line is printed for every (change, check) that is NOT
# silent.  Nothing printed after the header = no false alarm.
set -u
cd /verif
diffs=("$@"); [ ${#diffs[@]} -eq 0 ] && diffs=($(ls seeded/harmless/*.diff))
props=$(python3 -c "import json;print(' '.join(c['property_id'] for c in json.load(open('MANIFEST.json'))['checks']))")
run_one() {
  d=$1; id=$(basename $d .diff); scratch=$(mktemp -d /dev/shm/hx-$id-XXXX)
  mkdir -p $scratch/repo $scratch/out
  rsync -a --exclude .git /repo/ $scratch/repo/
  ( cd $scratch/repo && patch -p1 -s < /verif/$d ) || { echo "$id: patch does not apply"; rm -rf $scratch; return; }
  line="$id:"
  for p in $props; do
    out=$(VERIF_REPO=$scratch/repo VERIF_OUT=$scratch/out ./check $p --tier quick 2>&1); rc=$?
    if [ $rc -ne 0 ]; then line="$line $p(exit$rc:$(echo "$out" | grep -c '^VIOLATION')v)"; fi
  done
  echo "$line"
  rm -rf $scratch
}
export -f run_one; export props
printf "%s\n" "${diffs[@]}" | xargs -P 4 -I{} bash -c 'run_one {}'
