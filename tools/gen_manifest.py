#!/usr/bin/env python3
"""Regenerate MANIFEST.json from the table below (kept in one place so it always validates)."""
import json, os, sys
HERE = os.path.dirname(os.path.dirname(os.path.abspath(__file__)))
props = [json.loads(l)["id"] for l in open(os.path.join(HERE, "properties.jsonl"))]

CLAIMED = {
 "C03": dict(
   text="Lean 4 theorems (kernel-checked, no sorry, standard axioms) over a byte-level model of the writer and of every "
        "reader entry point: un-escaping inverts escaping for every byte string, the escaped alphabet, the spec's own "
        "un-escape relation, layout and date round trip for every valid date; the model is tied to /repo on every run "
        "by a function-level differential check (exhaustive single bytes, byte pairs, boundary dates, foreign contents) "
        "and the Lean predicate C03.Holds is evaluated on everything the implementation writes.",
   note="Trusted: Lean kernel + propext/Classical.choice/Quot.sound; the hand-written model of urllib quote/unquote, "
        "text-mode decoding and strptime/strftime (validated by the correspondence only); the Python harness. "
        "Outside the modelled domain: non-ASCII digits in dates, percent-decoded values that are not UTF-8.",
   ref="DESIGN.md §6 C03"),
 "C10": dict(
   text="Lean 4 theorems: the seconds arithmetic of the model of older_than agrees with an independent day-by-day calendar "
        "(lexicographic order, prevDay) for every DAYS, current time and date; boundary kept, one second older purged, "
        "future kept, antitone in DAYS, OverflowError exactly when now-DAYS is unrepresentable; only the first DeletionDate "
        "line counts. Tied to /repo by an exhaustive boundary-grid differential check of older_than and the date parser, "
        "with an independent integer-arithmetic oracle on the implementation.",
   note="Trusted: Lean kernel + standard axioms; the model of datetime/timedelta/strptime; the harness.",
   ref="DESIGN.md §6 C10"),
 "C12": dict(
   text="Lean 4 theorems: the greedy non-backtracking matcher that mirrors fnmatch.translate's regular expression decides "
        "a declarative matching relation for every pattern and string; the parsed pattern never has adjacent stars; "
        "literal patterns match only themselves; subject = full path iff the pattern starts with '/'. Tied to /repo by an "
        "exhaustive differential check of Filter.matches over small alphabets plus random non-ASCII cases.",
   note="Trusted: Lean kernel + standard axioms; the model of fnmatch.translate and of Python's re semantics for the "
        "generated expressions (validated exhaustively on small alphabets only); the harness.",
   ref="DESIGN.md §6 C12"),
 "C13": dict(
   text="Lean 4 theorems: the model of parse_indexes accepts a reply iff it denotes (independent relational grammar) indices "
        "all within the list, and returns exactly those; the scope test is a component-boundary prefix test on normalised "
        "paths; the offered list is a sorted permutation for every --sort mode. Tied to /repo by exhaustive differential "
        "checks (all replies up to length 4/5 over a 10-symbol alphabet, path pairs, random entry lists) with an "
        "independent regex-grammar oracle on the implementation.",
   note="Trusted: Lean kernel + standard axioms; the model of int(), str.split, sorted(); the harness. Non-ASCII replies "
        "are outside the modelled domain.",
   ref="DESIGN.md §6 C13"),
}

checks = []
for p in props:
    if p in CLAIMED:
        c = CLAIMED[p]
        checks.append({
            "property_id": p,
            "quick_cmd": "./check %s --tier quick" % p,
            "thorough_cmd": "./check %s --tier thorough" % p,
            "evidence_file": "evidence/%s.json" % p,
            "replay_cmd_template": "./check %s --replay {path}" % p,
            "engine": "lean4-model+correspondence",
            "level_claimed": {"category": "proof", "text": c["text"], "design_ref": c["ref"]},
            "level_note": c["note"],
            "technique": "machine-checked proof in Lean 4 over a hand-written model + differential correspondence check against the Python code",
        })
m = {
 "version": 1,
 "setup_cmd": "cd lean/TrashVerif && lake build TrashVerif driver",
 "hooks": {"guard": "TRASHCLI_VERIF",
           "enable": "no source hooks: checks import trashcli from /repo's working tree in-process and wrap os/shutil entry points at run time",
           "baseline_off_cmd": "cd /repo && /venv/bin/python -m pytest -ra -q -p no:cacheprovider --timeout=900 --continue-on-collection-errors",
           "source_commits": [], "add_only": True},
 "engines": [{"name": "lean4-model+correspondence", "path": "lean/TrashVerif + harness/",
              "serves_properties": sorted(CLAIMED), "kind_free_text": "Lean 4 model, Spec predicates and theorems; Python differential harness driving the real trashcli code and the compiled Lean driver over a line protocol"}],
 "checks": checks,
 "not_applicable": [{"property_id": p, "reason": "check under construction in this build phase; planned at level proof per DESIGN.md"} for p in props if p not in CLAIMED],
 "notes": "See DESIGN.md. ./check exits 0 (held), 1 (VIOLATION line printed), 2 (machinery error/timeout, never a violation).",
}
json.dump(m, open(os.path.join(HERE, "MANIFEST.json"), "w"), indent=1)
print("claimed:", sorted(CLAIMED))
