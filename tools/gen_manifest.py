#!/usr/bin/env python3
"""Regenerate MANIFEST.json from the table below (kept in one place so it always validates)."""
import json, os, sys
HERE = os.path.dirname(os.path.dirname(os.path.abspath(__file__)))
props = [json.loads(l)["id"] for l in open(os.path.join(HERE, "properties.jsonl"))]

import importlib, sys
sys.path.insert(0, HERE)

TEXT = {
 "C01": "Theorems (Lean 4, kernel-checked): the resolved-layer core of trash-put (persist the info file under a free name, move, clean up) — on success the whole subtree sits under files/N next to N.trashinfo and is gone from its place, both names were free, nothing else changed; on failure nothing changed; a refused entry leaves nothing behind; the dot test and normpath agree on the last component. Tied to /repo by world-level differential runs of the real trash-put (final state, exit status, diagnostics), by interleaved runs of 2-3 real processes, and the Lean predicate C01.Holds evaluated on every implementation run.",
 "C02": "Theorems: restore core after put core is the identity on the entry (every node, bytes, link targets, modes, mtimes) and on every other path but the mtimes of directories whose entry lists changed; what put writes is read back exactly; the location is in scope of its directory and ancestors. Tied to /repo by put->noise->restore pipelines over byte-class names, kinds, layouts, sort modes and restore origins.",
 "C03": "Theorems over a byte-level model of the writer and of every reader entry point: un-escaping inverts escaping for every byte string, the escaped alphabet, the spec's own un-escape relation, layout and date round trip for every valid date. Tied to /repo by an exhaustive function-level differential check (single bytes, byte pairs, boundary dates, foreign contents); C03.Holds is evaluated on everything the implementation writes.",
 "C04": "Theorems: a successful put takes two names that were free and frames every other payload and info file; two successive puts own distinct names and both payloads stay whole; move-into-directory is unreachable when the destination is free; the first 100 suffixes are distinct. Tied to /repo by world runs over trash directories pre-populated with up to 120 colliding names of every kind, checking every previously trashed entry byte for byte.",
 "C05": "Theorems: every state a kill can leave behind while the put core runs (before each call, and the final one) keeps the entry complete at its origin or under files/N, and shows a payload only next to its complete .trashinfo; atomic_write's intermediate states are absent/empty/complete. Tied to /repo by recording the sandbox before every mutating call of real runs, comparing the sequence with the model's and evaluating C05.Holds on each state; real kills in the thorough tier.",
 "C06": "Theorems: without --overwrite any existing destination (lexists) makes the restore fail before any call, under every fault oracle; a multi-index selection stops there; the command exits 1; with --overwrite a non-directory payload replaces an existing regular file, and the destination is left alone when the payload is missing (same index twice); a dangling link on the way to the destination's parent fails the restore without a change. Tied to /repo by restore worlds with destinations of every kind, duplicate locations and repeated indices.",
 "C07": "Theorems: home path from the environment (empty XDG_DATA_HOME = unset), candidate order, gates, rejected candidates are left untouched, created directories are 0700, the lexical volume ascent returns the device root on plain canonical paths; a candidate behind a symbolic link that does not resolve is left without a call and the next one is tried. Tied to /repo by world runs over the configuration lattice (single- and multi-argument, every argument judged on its own) with an independent device-level table (C07.expected) as oracle. Whole runs (Props/C07Cmd): on first use the missing part of the home trash is created (ancestors 0755, Trash/files/info 0700) and the entry trashed by one rename; a file on another volume goes to $topdir/.Trash/$uid behind a sticky real .Trash, else to $topdir/.Trash-$uid (created 0700), Path relative to $topdir; --trash-dir on another volume creates nothing and exits 74.",
 "C08": "Theorems: trash-put's security check rejects $topdir/.Trash/$uid exactly when $topdir/.Trash is a symlink, not a directory or not sticky; the scanner of list/empty/rm and trash-restore never yield it then; trash-list reports it. Tied to /repo by runs of all five commands on worlds with every .Trash state and a populated .Trash/$uid. Whole runs (Props/C08Cmd, every fault oracle): trash-empty and trash-rm change nothing at or below an insecure .Trash/$uid that is apart from the directories the scanner yields; trash-list mutates nothing and prints only lines of found directories; trash-restore offers nothing from it.",
 "C09": "Theorems: trash-list is a function of the bag; the put core adds exactly one element; purge and restore cores remove exactly the selected one; C09Hist.history: induction over any history of put/purge/restore operations on a trash directory (invariant + local side conditions) - the bag is the fold of the abstract add/remove steps, and the listing shows exactly the live names (list_after_history). The string-level front of each command is validated: seeded histories, after every step listing = Effects.bagLines of the on-disk state, the step's effect judged by Effects.check, model transition = implementation transition.",
 "C10": "Theorems: the model of older_than agrees with an independent day-by-day calendar for every DAYS, current time and date; boundary kept, one second older purged, future kept, antitone in DAYS; only the first DeletionDate line counts. Tied to /repo by an exhaustive boundary-grid differential check and by trash-empty world runs whose effects are checked against ground-truth dates. Loop level (Props/C10Loop): over a whole info/ directory exactly the entries the decision selects on the initial state disappear whole, every other entry and everything outside files/ and info/ is unchanged; the decision is the property's date rule; the DAYS-overflow abort is characterised.",
 "C11": "Theorems (every fault oracle): rmtree / remove_file2 / remove_file_if_exists / remove_file change no path outside the subtree they are given; a symlink payload is unlinked; the payload path of an accepted info name lies under files/. Tied to /repo by trash-rm / trash-empty runs on trash contents full of symlinks to sentinels, checking every path outside files/ and info/.",
 "C12": "Theorems: the greedy matcher mirroring fnmatch.translate decides a declarative matching relation for every pattern and string; literal patterns match only themselves; subject = full path iff the pattern starts with '/'. Tied to /repo by an exhaustive differential check of Filter.matches over small alphabets and by trash-rm world runs. Loop level (Props/C10Loop, namespace C12Loop): rmInfos purges exactly the entries whose recorded location matches, reports and keeps unparsable ones, leaves every other entry unchanged.",
 "C13": "Theorems: parse_indexes accepts a reply iff it denotes (independent relational grammar) indices all within the list and returns exactly those; the scope test is a component-boundary prefix test; the offered list is a sorted permutation for every --sort mode. Tied to /repo by exhaustive function-level checks and by trash-restore world runs (listing and effects against ground truth). Whole runs (Props/C13Cmd): a reply that is not accepted, an empty reply or end of input changes nothing (every fault oracle); an accepted reply restores exactly the selected entries whole and leaves every other entry and everything else unchanged; the run stops at the first refusal.",
 "C14": "Theorems: with --dry-run, and in interactive mode with a reply not beginning with y/Y or end of input, trash-empty issues no file-system call for every world, DAYS and oracle. Tied to /repo by world runs, an exhaustive check of parse_reply, and dry-run vs real-run differential runs on copies.",
 "C15": "Theorems: while one entry is purged the info file is untouched as long as the payload root exists (every oracle); re-running the purge completes it; a same-volume restore keeps the entry complete in the trash or at its destination in every intermediate state. Tied to /repo by recorded pre-call states of restore/empty/rm runs, and kill-and-rerun runs.",
 "C16": "Theorems (every fault oracle): every argument is handled in order unless the run aborts; exit 0 iff no argument failed, 74 otherwise, 1 on abort; every failed argument is named on stderr; -f forgives only missing paths, -i skips only on a non-y reply. Independence (Props/C16Indep): what follows an argument never changes what happened before it; arguments that leave the file system alone are transparent at any position (every oracle); two really-trashed arguments commute at the resolved layer and, for canonical spellings, in the home trash (_partial); the first literal statement is refuted by 10 kernel-checked counterexamples. The general case is validated differentially (each argument alone on a copy: outcome, trash directory, recorded Path).",
 "C17": "Theorems (arbitrary fault oracle): a hopeless errno ends the name search at once; the search is bounded; whatever the answers to create/write/close, success means wholly trashed and failure means nothing left behind (rename and clean-up unlink not faulted). Tied to /repo by exhaustive single-fault sweeps (every call x 14 errnos), persistent faults, stat-class faults, pairs in thorough.",
 "C18": "Theorems: normpath never leaves a trailing slash; the last component survives any number of trailing slashes; kernel resolution does not follow a final symlink; the core moves the link node and frames its target. Tied to /repo by world runs biased to symlink arguments (links to files, directories, nothing, other links, the top of another volume) with the C18 oracle (same link in the trash, target untouched, recorded location) and: a link is trashed whenever C07.expected names a usable trash directory.",
 "C19": "Theorems: the readers are item-wise maps over the sorted name list; item-wise readers are insensitive to interleaved items that yield nothing; the sort is total; malformed items issue no call in trash-rm / trash-empty DAYS. Tied to /repo by worlds with 14 kinds of malformed neighbours, each also run with the neighbours deleted.",
 "C20": "Theorems: list, restore, rm and empty factor through the same two parsers and are handed the same base directory for every kind of trash directory. Tied to /repo by an exhaustive four-way differential over content templates x trash-dir kinds.",
}

CLAIMED = {}
for pid in TEXT:
    if not os.path.exists(os.path.join(HERE, "lean", "TrashVerif", "TrashVerif", "Proofs", pid + ".lean")):
        continue
    if not os.path.exists(os.path.join(HERE, "harness", "props", pid.lower() + ".py")):
        continue
    mod = importlib.import_module("harness.props." + pid.lower())
    note = getattr(mod, "LEVEL_NOTE", "")
    CLAIMED[pid] = dict(text=TEXT[pid],
                        note="Trusted: Lean 4 kernel + axioms propext/Classical.choice/Quot.sound; the hand-written model (Model/*.lean) "
                             "of the Python code and of the kernel/stdlib behaviour it relies on, validated by the correspondence only; "
                             "the Python harness and the line-protocol driver. " + note,
                        ref="DESIGN.md §6 " + pid)

checks = []
for p in props:
    if p in CLAIMED:
        c = CLAIMED[p]
        checks.append({
            "property_id": p,
            "quick_cmd": "./check %s --tier quick" % p,
            "thorough_cmd": "./check %s --tier thorough" % p,
            "evidence_file": "evidence/%s.json" % p,
            "replay_cmd_template": "./check %s --replay {path}" % p,
            "engine": "lean4-model+correspondence",
            "level_claimed": {"category": "proof", "text": c["text"], "design_ref": c["ref"]},
            "level_note": c["note"],
            "technique": "machine-checked proof in Lean 4 over a hand-written model + differential correspondence check against the Python code",
        })
m = {
 "version": 1,
 "setup_cmd": "cd lean/TrashVerif && lake build TrashVerif driver",
 "hooks": {"guard": "TRASHCLI_VERIF",
           "enable": "no source hooks: checks import trashcli from /repo's working tree in-process and wrap os/shutil entry points at run time",
           "baseline_off_cmd": "cd /repo && /venv/bin/python -m pytest -ra -q -p no:cacheprovider --timeout=900 --continue-on-collection-errors",
           "source_commits": [], "add_only": True},
 "engines": [{"name": "lean4-model+correspondence", "path": "lean/TrashVerif + harness/",
              "serves_properties": sorted(CLAIMED), "kind_free_text": "Lean 4 model, Spec predicates and theorems; Python differential harness driving the real trashcli code and the compiled Lean driver over a line protocol"}],
 "checks": checks,
 "not_applicable": [{"property_id": p, "reason": "check under construction in this build phase; planned at level proof per DESIGN.md"} for p in props if p not in CLAIMED],
 "notes": "See DESIGN.md. ./check exits 0 (held), 1 (VIOLATION line printed), 2 (machinery error/timeout, never a violation).",
}
json.dump(m, open(os.path.join(HERE, "MANIFEST.json"), "w"), indent=1)
print("claimed:", sorted(CLAIMED))
