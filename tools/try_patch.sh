#!/bin/bash
# tools/try_patch.sh <patch.diff> <Cxx> [<Cyy> ...] — apply a seeded change to /repo, run the quick checks, undo it.
set -u
patch="$(realpath "$1")"; shift
cd /verif
if ! git -C /repo diff --quiet; then echo "/repo has uncommitted changes"; exit 2; fi
git -C /repo apply "$patch" || { echo "patch does not apply"; exit 2; }
trap 'git -C /repo checkout -- . ; git -C /repo clean -fdq trashcli' EXIT
for p in "$@"; do
  out=$(./check "$p" --tier quick 2>&1); rc=$?
  nv=$(echo "$out" | grep -c "^VIOLATION")
  nf=$(echo "$out" | grep "^VIOLATION" | grep -c "no-failing-input-found")
  echo "$p: exit=$rc violations=$nv (no-failing-input-found: $nf) | $(echo "$out" | tail -1)"
done
