#!/bin/bash
# tools/seeded_own.sh <seed> [<seeded-id> ...] — run, for every seeded change, the quick check of the property it was written
# against, with the given VERIF_SEED, on a scratch copy of /repo; prints the changes that are NOT caught with a concrete input.
set -u
cd /verif
seed=$1; shift
ids=("$@"); [ ${#ids[@]} -eq 0 ] && ids=($(ls seeded | grep -E "^C[0-9]+-[0-9]+$"))
run_one() {
  id=$1; p=${id%%-*}; scratch=$(mktemp -d /dev/shm/own-$id-XXXX)
  mkdir -p $scratch/repo $scratch/out
  rsync -a --exclude .git /repo/ $scratch/repo/
  ( cd $scratch/repo && patch -p1 -s < /verif/seeded/$id/patch.diff ) || { echo "$id: patch does not apply"; rm -rf $scratch; return; }
  out=$(VERIF_SEED=$SEED VERIF_REPO=$scratch/repo VERIF_OUT=$scratch/out ./check $p --tier quick 2>&1); rc=$?
  nv=$(echo "$out" | grep -c "^VIOLATION"); nf=$(echo "$out" | grep "^VIOLATION" | grep -c "no-failing-input-found")
  if [ $rc -ne 1 ] || [ $nv -eq $nf ]; then echo "seed=$SEED $id: NOT concrete (exit=$rc violations=$nv nfif=$nf)"; fi
  rm -rf $scratch
}
export -f run_one; export SEED=$seed
printf "%s\n" "${ids[@]}" | xargs -P 6 -I{} bash -c 'run_one {}'
echo "seed=$seed done"
