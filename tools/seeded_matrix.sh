#!/bin/bash
# tools/seeded_matrix.sh [<seeded-id> ...] — run every quick check against every seeded change, each on its own scratch
# copy of /repo (VERIF_REPO) with evidence and replays redirected (VERIF_OUT); prints one line per (change, check) that fires.
# /repo itself and /verif/evidence are not touched.  Scratch copies live under /dev/shm and are removed at the end.
set -u
cd /verif
ids=("$@"); [ ${#ids[@]} -eq 0 ] && ids=($(ls seeded | grep -E "^C[0-9]+-[0-9]+$"))
props=$(python3 -c "import json;print(' '.join(c['property_id'] for c in json.load(open('MANIFEST.json'))['checks']))" 2>/dev/null || echo "")
[ -z "$props" ] && props=$(ls harness/props | sed -n 's/^c\([0-9][0-9]\)\.py$/C\1/p')
run_one() {
  id=$1; scratch=$(mktemp -d /dev/shm/mx-$id-XXXX)
  mkdir -p $scratch/repo $scratch/out
  rsync -a --exclude .git /repo/ $scratch/repo/
  ( cd $scratch/repo && patch -p1 -s < /verif/seeded/$id/patch.diff ) || { echo "$id: patch does not apply"; rm -rf $scratch; return; }
  line="$id:"
  for p in $props; do
    out=$(VERIF_REPO=$scratch/repo VERIF_OUT=$scratch/out ./check $p --tier quick 2>&1); rc=$?
    nv=$(echo "$out" | grep -c "^VIOLATION"); nf=$(echo "$out" | grep "^VIOLATION" | grep -c "no-failing-input-found")
    if [ $rc -eq 1 ]; then if [ $nf -eq $nv ]; then line="$line $p(nfif)"; else line="$line $p"; fi
    elif [ $rc -ne 0 ]; then line="$line $p(exit$rc)"; echo "$id $p exit $rc: $(echo "$out" | tail -4)" >&2; fi
  done
  echo "$line"
  rm -rf $scratch
}
export -f run_one; export props
printf "%s\n" "${ids[@]}" | xargs -P 4 -I{} bash -c 'run_one {}'
