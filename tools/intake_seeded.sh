#!/bin/bash
# tools/intake_seeded.sh <Cxx> <round> — copy a sub-agent's change out of its scratch worktree /tmp/mut<round>_<Cxx>/out into
# seeded/<Cxx>-<round>/ and confirm it there: demo fails with the patch, passes without, test-suite unchanged.
set -u
id=$1; r=$2; wt=/tmp/mut${r}_$id; sd=/verif/seeded/$id-$r
mkdir -p $sd
cp $wt/out/patch.diff $sd/patch.diff
cp $wt/out/demo.py $sd/demo.py 2>/dev/null || cp $wt/out/test_demo.py $sd/demo.py
cp $wt/out/meta.json $sd/meta.agent.json
cd $wt || exit 2
git checkout -q -- . 2>/dev/null
git apply $sd/patch.diff || { echo "$id-$r: patch does not apply"; exit 2; }
/venv/bin/python out/demo.py > /dev/null 2>&1; rc_with=$?
git apply -R $sd/patch.diff
/venv/bin/python out/demo.py > /dev/null 2>&1; rc_without=$?
git apply $sd/patch.diff
t=$(/venv/bin/python -m pytest -q -p no:cacheprovider --timeout=900 2>&1 | tail -1)
git apply -R $sd/patch.diff
applies=$(cd /repo && git apply --check $sd/patch.diff 2>&1 && echo applies-to-repo)
echo "$id-$r: demo with patch rc=$rc_with, without rc=$rc_without, suite with patch: $t | $applies"
